package rules

import (
	"fmt"
	"go/token"
	"go/types"
	"os"
	"sort"
	"strings"

	"golang.org/x/tools/go/packages"
	"golang.org/x/tools/go/ssa"

	"verif/checker/flow"
	"verif/checker/layout"
	"verif/checker/load"
)

func init() {
	register(&RuleSet{
		ID:      "C07",
		Arch386: true,
		Explanation: "T18 every call into go-sev-guest's certificate-table parser (CertTable.Unmarshal, ReportCertsToProto) is dominated by the nil edge of extractsev.CheckCertTable over bytes of the same input (F24). " +
			"T26 a constant slice bound or index on a slice that is a call result or a field value (x.GetSignature()[:8]) needs len ≥ that constant established for that very slice. " +
			"T25 an integer division or remainder by a non-constant happens only behind a dominating condition on that very value that excludes zero. " +
			"T24 a conversion of a slice to an array or array pointer ([N]T(x)) happens only where len(x) ≥ N is established for that slice (by construction, by a dominating condition, or by every caller of an unexported helper): a shorter value panics. " +
			"T23 (= C16.R8/R9) optional evidence sources are nil-tested before use and never wrapped or manufactured by the extraction library. " +
			"T21 a difference of two non-constant integers that is unsigned, or used as an index / slice bound / allocation size, is taken only where the subtrahend is known to be no larger than the minuend (dominating comparison of the same values, transitively, shifted form, by construction, helper postcondition, established by every caller, or — signed — every use behind diff ≥ 0); named value exceptions by package and operand shape. " +
			"T19 every single-result type assertion in V is on a value whose dynamic type is fixed by construction (proto.Clone result, interface made in the function). " +
			"T17 (= C09.R1/R4) the verification closure writes no state that outlives the call, so the outcome for an input does not depend on earlier inputs. " +
			"Closure V = repo functions reachable from the relying-party entry points (verify.Endorsement[Proto], the SNP validator closures, extract.Attestation / Endorsement, extractsev.From*, SevPolicy, TdxPolicy, SevValidate, TdxValidate, Inspect*, MaskOptions.Mask, CryptoAgileLog.Unmarshal, SP800155Event3.UnmarshalFromBytes, exel.Locate). " +
			"T1 nil-unsafe dereference: a pointer to a generated message obtained from a getter or a message field (possibly nil after unmarshalling untrusted bytes) reaches a direct field access only behind a != nil edge for the same access path (parameters are resolved at the call sites in V). " +
			"T2 allocation proportional to input: make / Grow / strings.Repeat whose size derives from a decoded integer (target of binary.Read — also through the repo's read helpers — or a binary UintN result) must be dominated by an ordering comparison of that value with a constant or a length; sizes looked up in a package-level table of constants are bounded. " +
			"T3 every Read call in V's packages has its count checked. T4 every function of V with constant offsets into a []byte parameter has a sufficient length guard (layout extraction). " +
			"T5 no explicit panic and no Must* helper on non-constant input in V (one named suppression). T15 loop progress: loops of V that are counted (integer variable moved strictly on every back edge and compared in an exit test), iterator or consumption loops are decided; a loop variable moved by a decoded amount that no check in the loop makes positive is reported; other shapes are counted as unclassified in evidence. T6 the event-log record loop leaves on the first failed record read and every iteration starts with such a read. " +
			"T10 sentinel index: the result of a bytes/strings/slices Index-family search (−1 = not found) used as an index, slice bound or allocation size needs a dominating sign test of that very value. T11 x[len(x)−k] / x[:len(x)−k] needs a dominating condition on that very slice value establishing len(x) ≥ k (one named suppression with reason in C07). T12 +,−,*,<< on a decoded operand carried out in fewer bits than the integer type its result is then converted to needs a dominating upper bound of the operand. T13 (ESP) a []byte sliced at bounds that move with a loop counter, in a loop that runs up to a value not computed from the buffer's length, is reached only on paths where executed checks relate that value to the buffer length through some chain of comparisons (decides that a relating chain exists, not that it is arithmetically sufficient). " +
			"Not covered: panics, loops and allocation inside external decoders (go-sev-guest, go-tdx-guest, proto, x509); non-constant index arithmetic; anything needing a numeric invariant.",
		Assumptions: []string{"go/types, go/ssa, VTA call graph", "generated protobuf getters are nil-safe", "io.ReadAll(io.LimitReader) and append grow with the data actually present"},
		Run:         runC07,
	})
}

func isMessagePtr(t types.Type) bool {
	p, ok := t.(*types.Pointer)
	if !ok {
		return false
	}
	n, ok := p.Elem().(*types.Named)
	if !ok {
		return false
	}
	if _, isStruct := n.Underlying().(*types.Struct); !isStruct {
		return false
	}
	ms := types.NewMethodSet(p)
	return ms.Lookup(nil, "ProtoReflect") != nil
}

func c07Roots(c *Ctx) []*ssa.Function {
	var roots []*ssa.Function
	add := func(f *ssa.Function) {
		if f != nil {
			roots = append(roots, f)
		}
	}
	add(c.P.Func("verify", "Endorsement"))
	add(c.P.Func("verify", "EndorsementProto"))
	add(c.P.Func("verify", "SNP"))
	for _, n := range []string{"SNPFamilyValidateFunc", "SNPValidateFunc"} {
		if m := c.P.Func("verify", n); m != nil {
			add(m)
			for _, an := range m.AnonFuncs {
				add(an)
			}
		}
	}
	add(c.P.Func("extract", "Attestation"))
	add(c.P.Func("extract", "Endorsement"))
	add(c.P.Func("extract/extractsev", "FromAttestation"))
	add(c.P.Func("extract/extractsev", "FromCertTable"))
	for _, n := range []string{"SevPolicy", "TdxPolicy", "SevValidate", "TdxValidate", "InspectPayload", "InspectSignature", "InspectMask"} {
		add(c.P.Func("gcetcbendorsement", n))
	}
	add(c.P.Method("gcetcbendorsement", "MaskOptions", "Mask"))
	add(c.P.Method("eventlog", "CryptoAgileLog", "Unmarshal"))
	add(c.P.Method("eventlog", "SP800155Event3", "UnmarshalFromBytes"))
	add(c.P.Func("extract/eventlog", "Locate"))
	add(c.P.Func("extract/eventlog", "RIMEventsFromEventLog"))
	return roots
}

func runC07(c *Ctx) {
	// T23 = C16.R8/R9: an absent evidence source is reported, not called through. The nil guard of a source tests the
	// interface the caller handed over; nothing in the extraction library wraps that interface in a value of its own
	// (a wrapper is never nil, so the guard no longer fires and the wrapper calls through a nil getter).
	c.borrow("T23/C16.", runC16, func(rule, _ string) bool { return rule == "R8" || rule == "R9" })
	// T18 (finding F24): go-sev-guest's certificate-table parser adds an entry's offset and length in 32 bits and then
	// slices: a wrapping entry panics. Every call of this repository into that parser ((*abi.CertTable).Unmarshal,
	// abi.ReportCertsToProto) is reached only on the nil edge of extractsev.CheckCertTable (the 64-bit range check) over
	// bytes of the same input.
	defer func() {
		n := 0
		sl := flow.NewSlicer(c.P)
		for _, f := range c.P.RepoFunctions() {
			if c.isTestFunc(f) || isTestingPkg(load.RelPkg(f)) {
				continue
			}
			for _, call := range callsIn(f, func(call ssa.CallInstruction) bool {
				cal := call.Common().StaticCallee()
				if cal == nil || cal.Pkg == nil || cal.Pkg.Pkg.Path() != "github.com/google/go-sev-guest/abi" {
					return false
				}
				return (cal.Name() == "Unmarshal" && cal.Signature.Recv() != nil && strings.HasSuffix(cal.Signature.Recv().Type().String(), "abi.CertTable")) || cal.Name() == "ReportCertsToProto"
			}) {
				n++
				var data ssa.Value
				for _, a := range call.Common().Args {
					if a.Type().String() == "[]byte" {
						data = a
					}
				}
				roots := map[ssa.Value]bool{}
				if data != nil {
					sl.Visit(data, func(v ssa.Value) bool { roots[v] = true; return true }, nil)
				}
				guarded := false
				b := call.(ssa.Instruction).Block()
				for _, cf := range dominatingConds(b) {
					bo, ok := cf.Cond.(*ssa.BinOp)
					if !ok || !isNilK(bo.Y) || (bo.Op != token.EQL && bo.Op != token.NEQ) || (bo.Op == token.EQL) != cf.Val {
						continue
					}
					gc, ok := bo.X.(*ssa.Call)
					if !ok || gc.Call.StaticCallee() == nil || gc.Call.StaticCallee().Name() != "CheckCertTable" || load.RelPkg(gc.Call.StaticCallee()) != "extract/extractsev" {
						continue
					}
					// over bytes of the same input
					same := false
					sl.Visit(gc.Call.Args[0], func(v ssa.Value) bool {
						if _, isK := v.(*ssa.Const); !isK && roots[v] {
							if _, isP := v.(*ssa.Parameter); isP {
								same = true
							}
							if v == data {
								same = true
							}
						}
						return !same
					}, nil)
					if same {
						guarded = true
					}
				}
				c.S.Check(guarded, "T18", load.FuncName(f)+":"+callName(call)+" behind CheckCertTable", c.pos(call.Pos()), "the table parser is reached only on the nil edge of the 64-bit range check over the same input", "go-sev-guest's certificate-table parser is handed bytes that were not range-checked first: an entry whose offset+length wraps 32 bits passes its own check and is sliced out of bounds (panic on peer-controlled bytes)")
			}
		}
		c.S.Floor("T18", "calls into go-sev-guest's certificate-table parser", 3, n)
	}()
	// T17 = C09.R1/R4: the relying-party decoders keep no state between calls. A decoder that remembers something
	// about an earlier input (a parse cache keyed by peer-chosen bytes) can answer the second presentation of a
	// malformed input differently from the first — "refused" the first time, a nil dereference the second.
	c.borrow("T17/C09.", runC09, func(rule, _ string) bool { return rule == "R1" || rule == "R4" })
	roots := c07Roots(c)
	if !c.S.Floor("T0", "relying-party entry points resolved", 18, len(roots)) {
		return
	}
	rootSet := map[*ssa.Function]bool{}
	for _, r := range roots {
		rootSet[r] = true
	}
	V := c.reachable(roots, func(f *ssa.Function) bool {
		return load.FuncInRepo(f) && !strings.HasPrefix(load.RelPkg(f), "proto/") && !strings.HasPrefix(load.RelPkg(f), "cmd/output") && !strings.Contains(load.RelPkg(f), "testmessage")
	})
	var fns []*ssa.Function
	for f := range V {
		if f != nil && f.Blocks != nil {
			fns = append(fns, f)
		}
	}
	sort.Slice(fns, func(i, j int) bool { return fns[i].Pos() < fns[j].Pos() })
	c.S.Floor("T0", "functions in the relying-party closure", 60, len(fns))
	c.S.Count("closure_functions", len(fns))

	c.nilDerefRule("T1", fns, V, rootSet, 5)
	// T19: no panicking type assertion on a value whose dynamic type the input chooses. A single-result assertion
	// x.(T) in the closure is allowed only where the dynamic type is fixed by construction: x is the result of
	// proto.Clone (same type as its argument), of a conversion to the interface made in the same function, or a
	// type-switch case (go/ssa makes those comma-ok). Anything else — the public key of a parsed certificate, a
	// decoded event, a oneof — needs the comma-ok form.
	{
		nTA, nOK := 0, 0
		for _, f := range fns {
			for _, b := range f.Blocks {
				for _, in := range b.Instrs {
					ta, ok := in.(*ssa.TypeAssert)
					if !ok {
						continue
					}
					nTA++
					if ta.CommaOk {
						nOK++
						continue
					}
					safe := ""
					switch x := ta.X.(type) {
					case *ssa.MakeInterface:
						safe = "interface made in this function"
					case *ssa.Call:
						if cal := x.Call.StaticCallee(); cal != nil {
							switch cal.String() {
							case "google.golang.org/protobuf/proto.Clone":
								safe = "proto.Clone returns its argument's type"
							}
							// a function of this repository that wraps a value of exactly the asserted type on every return
							if safe == "" && load.FuncInRepo(cal) && cal.Blocks != nil {
								all, n := true, 0
								for _, cb := range cal.Blocks {
									if ret, ok := cb.Instrs[len(cb.Instrs)-1].(*ssa.Return); ok && len(ret.Results) == 1 {
										n++
										mi, ok := ret.Results[0].(*ssa.MakeInterface)
										if !ok || !types.Identical(mi.X.Type(), ta.AssertedType) {
											all = false
										}
									}
								}
								if all && n > 0 {
									safe = "the callee " + cal.Name() + " returns that type on every path"
								}
							}
						}
					}
					if _, toIface := ta.AssertedType.Underlying().(*types.Interface); toIface && safe == "" {
						// asserting to an interface type that the static type already implements cannot fail for non-nil values;
						// left to T1 (nil) — only concrete targets are examined here
						if types.Implements(ta.X.Type(), ta.AssertedType.Underlying().(*types.Interface)) {
							safe = "static type implements the interface"
						}
					}
					c.S.Check(safe != "", "T19", load.FuncName(f)+":assertion to "+types.TypeString(ta.AssertedType, func(p *types.Package) string { return p.Name() }), c.pos(ta.Pos()), "dynamic type fixed by construction ("+safe+")", "single-result type assertion on a value whose dynamic type the input decides ("+flow.Describe(ta.X)+"): a different type panics instead of being refused; use the comma-ok form")
				}
			}
		}
		c.S.Floor("T19", "type assertions in the relying-party closure", 3, nTA)
		c.S.Note("T19: %d type assertions in V, %d comma-ok", nTA, nOK)
	}
	c.allocRule("T2", fns, V, nil)
	pk := map[string]bool{}
	for _, f := range fns {
		pk[load.RelPkg(f)] = true
	}
	var rels []string
	for r := range pk {
		rels = append(rels, r)
	}
	sort.Strings(rels)
	c.readCountRule("T3", rels, 2)
	c.guardRule("T4", rels, V, 2)
	c.panicRule("T5", fns, map[string]string{})
	c.sentinelRule("T10", fns)
	c.lenMinusRule("T11", fns, map[string]string{
		"golang.org/x/text/transform.Bytes": "indexes the output of an external UTF-16 decoder; non-empty because the only producer of its argument (variableLocatorDecode, checked by this rule) yields an even length ≥ 4 and every code unit decodes to ≥ 1 byte — a numeric fact about x/text that no rule here can derive",
	})
	c.widenAfterArithRule("T12", fns)
	// T24: a slice converted to an array needs its length established first
	// (none on the present tree: the canary mutant C07-mrtd-converted-to-array must fire)
	c.S.OK("T24", "relying-party closure:slice-to-array conversions", "", fmt.Sprintf("%d conversions of a slice to an array examined", c.sliceToArrayRule("T24", fns)), false)
	c.S.OK("T25", "relying-party closure:divisions by a non-constant", "", fmt.Sprintf("%d integer divisions or remainders by a non-constant examined", c.divisorRule("T25", fns)), false)
	c.S.OK("T26", "relying-party closure:constant bounds on computed slices", "", fmt.Sprintf("%d constant slice bounds / indexes on call results and field values examined", c.constBoundRule("T26", fns)), false)
	// T21: a difference of two non-constant values that is used as a bound (or is unsigned) is taken only where the
	// subtrahend is known to be no larger than the minuend
	// (none on the present tree: the canary mutant C07-range-check-by-subtraction must fire)
	c.S.OK("T21", "relying-party closure:guarded differences", "", fmt.Sprintf("%d differences of two non-constant values used as bounds (or unsigned) examined", c.guardedSubRule("T21", fns, t21Reasons, os.Getenv("VCHECK_SURVEY") != "")), false)
	c.foreignBoundSliceRule("T13", fns)
	if os.Getenv("VCHECK_SURVEY") != "" {
		c.surveyAccesses(fns)
	}

	// ---- T15 loop progress (counted / iterator / consumption classes; other shapes are recorded only) ----
	nL, _ := c.loopProgressRule("T15", fns, nil)
	c.S.Floor("T15", "loops in the relying-party closure", 10, nL)

	// ---- T6 ----
	if um := c.P.Method("eventlog", "CryptoAgileLog", "Unmarshal"); um != nil {
		loops := naturalLoops(um)
		okLoop := false
		why := "no record loop found"
		for _, L := range loops {
			// first call in the header block (or its single successor chain) must be fallible with its error leading out of the loop
			var first *ssa.Call
			b := L.Header
			for i := 0; i < 3 && first == nil && b != nil; i++ {
				for _, in := range b.Instrs {
					if call, ok := in.(*ssa.Call); ok {
						if _, isB := call.Call.Value.(*ssa.Builtin); !isB {
							first = call
							break
						}
					}
				}
				if first == nil && len(b.Succs) == 1 {
					b = b.Succs[0]
				} else {
					break
				}
			}
			if first == nil {
				continue
			}
			ei := errIndex(first.Call.Signature())
			// the call is itself a primitive read of the standard library, or reaches one
			reads := calleeIs(first, "encoding/binary.Read") || isReaderRead(first) || calleeIs(first, "io.ReadFull") || calleeIs(first, "io.ReadAtLeast")
			for _, cal := range c.P.Callees(first) {
				for g := range c.reachable([]*ssa.Function{cal}, nil) {
					if len(callsIn(g, func(cc ssa.CallInstruction) bool {
						return calleeIs(cc, "encoding/binary.Read") || isReaderRead(cc) || calleeIs(cc, "io.ReadFull")
					})) > 0 {
						reads = true
					}
				}
			}
			// every back edge is dominated by err == nil of that call
			allBack := true
			var errVal ssa.Value = first
			if first.Call.Signature().Results().Len() > 1 {
				for _, r := range nonDebugRefs(first) {
					if ex, ok := r.(*ssa.Extract); ok && ex.Index == ei {
						errVal = ex
					}
				}
			}
			for _, back := range L.Backs {
				if !errKnownNil(back, errVal) {
					allBack = false
				}
			}
			if ei >= 0 && reads && allBack {
				okLoop = true
			} else {
				why = fmt.Sprintf("first call %s: fallible=%v reads=%v back edges behind err==nil=%v", callName(first), ei >= 0, reads, allBack)
			}
		}
		c.S.Check(okLoop, "T6", "eventlog.CryptoAgileLog.Unmarshal:progress", c.pos(um.Pos()), "each iteration starts with a fallible record read and goes round only when it succeeded", "the record loop can go round without a successful read that consumes input: "+why)
	}
}

// ---------------------------------------------------------------------------
// T1

func (c *Ctx) nilDerefRule(rule string, fns []*ssa.Function, V map[*ssa.Function]bool, roots map[*ssa.Function]bool, floor int) {
	type site struct {
		fa *ssa.FieldAddr
		f  *ssa.Function
	}
	nilUnsafeOrigin := func(v ssa.Value) (string, bool) {
		seen := map[ssa.Value]bool{}
		var walk func(v ssa.Value, d int) (string, bool)
		walk = func(v ssa.Value, d int) (string, bool) {
			if d > 8 || seen[v] {
				return "", false
			}
			seen[v] = true
			switch x := v.(type) {
			case *ssa.Call:
				if f := x.Call.StaticCallee(); f != nil && flow.IsProtoGetter(f) && isMessagePtr(x.Type()) {
					return "result of " + f.Name() + "()", true
				}
			case *ssa.UnOp:
				if x.Op == token.MUL {
					if fa, ok := x.X.(*ssa.FieldAddr); ok && isMessagePtr(x.Type()) && (isMessagePtr(fa.X.Type()) || isOneofWrapper(fa.X.Type())) {
						return "field " + flow.FieldName(fa), true
					}
				}
			case *ssa.Phi:
				for _, e := range x.Edges {
					if s, ok := walk(e, d+1); ok {
						return s, true
					}
				}
			case *ssa.TypeAssert:
				return walk(x.X, d+1)
			case *ssa.Extract:
				return walk(x.Tuple, d+1)
			}
			return "", false
		}
		return walk(v, 0)
	}
	guarded := func(b *ssa.BasicBlock, v ssa.Value) bool {
		vp := flow.PathOf(v)
		// `if p.F == nil { p.F = &T{} }` before the use: the nil edge stores a fresh object
		for d := b; d != nil; d = d.Idom() {
			iff, ok := d.Instrs[len(d.Instrs)-1].(*ssa.If)
			if !ok || !d.Dominates(b) || d == b {
				continue
			}
			bo, ok := iff.Cond.(*ssa.BinOp)
			if !ok || !isNilK(bo.Y) || (bo.Op != token.EQL && bo.Op != token.NEQ) {
				continue
			}
			xp := flow.PathOf(bo.X)
			if !(bo.X == v || (len(vp.Fields) > 0 && xp.Equal(vp))) {
				continue
			}
			nilSucc := d.Succs[0]
			if bo.Op == token.NEQ {
				nilSucc = d.Succs[1]
			}
			for _, in := range nilSucc.Instrs {
				if st, ok := in.(*ssa.Store); ok {
					if _, fresh := st.Val.(*ssa.Alloc); fresh {
						if sp := flow.PathOf(st.Addr); len(sp.Fields) > 0 && sp.Equal(vp) {
							return true
						}
					}
				}
			}
		}
		for _, cf := range dominatingConds(b) {
			bo, ok := cf.Cond.(*ssa.BinOp)
			if !ok || !isNilK(bo.Y) || (bo.Op != token.NEQ && bo.Op != token.EQL) {
				continue
			}
			if (bo.Op == token.NEQ) != cf.Val {
				continue
			}
			if bo.X == v {
				return true
			}
			xp := flow.PathOf(bo.X)
			if len(vp.Fields) > 0 && xp.Equal(vp) {
				return true
			}
		}
		return false
	}
	n, bad := 0, 0
	// parameters dereferenced per function
	derefParams := map[*ssa.Function]map[int]bool{}
	for _, f := range fns {
		for _, b := range f.Blocks {
			for _, in := range b.Instrs {
				fa, ok := in.(*ssa.FieldAddr)
				if !ok || !isMessagePtr(fa.X.Type()) {
					continue
				}
				if p, ok := fa.X.(*ssa.Parameter); ok && !guarded(b, p) {
					for i, q := range f.Params {
						if q == p {
							if derefParams[f] == nil {
								derefParams[f] = map[int]bool{}
							}
							derefParams[f][i] = true
						}
					}
					continue
				}
				origin, unsafe := nilUnsafeOrigin(fa.X)
				if !unsafe {
					continue
				}
				n++
				if guarded(b, fa.X) {
					c.S.OK(rule, load.FuncName(f)+":."+flow.FieldName(fa)+" of "+origin, c.pos(fa.Pos()), "dereference behind a nil check of the same access path", true)
					continue
				}
				bad++
				c.S.Bad(rule, load.FuncName(f)+":."+flow.FieldName(fa)+" of "+origin, c.pos(fa.Pos()), "a possibly-nil message pointer ("+origin+") is dereferenced without a nil check: an input that omits the sub-message makes the verifier panic")
			}
		}
	}
	// call sites handing a nil-unsafe value to a dereferencing parameter
	for _, f := range fns {
		for _, call := range callsIn(f, func(ssa.CallInstruction) bool { return true }) {
			callee := call.Common().StaticCallee()
			if callee == nil || derefParams[callee] == nil {
				continue
			}
			args := call.Common().Args
			for i := range derefParams[callee] {
				if i >= len(args) {
					continue
				}
				origin, unsafe := nilUnsafeOrigin(args[i])
				if !unsafe {
					continue
				}
				n++
				if guarded(call.Block(), args[i]) {
					c.S.OK(rule, load.FuncName(f)+"→"+callee.Name()+":"+origin, c.pos(call.Pos()), "argument checked for nil before a callee that dereferences it", true)
					continue
				}
				bad++
				c.S.Bad(rule, load.FuncName(f)+"→"+callee.Name()+":"+origin, c.pos(call.Pos()), "a possibly-nil message pointer ("+origin+") is passed to "+callee.Name()+", which dereferences it unconditionally")
			}
		}
	}
	c.S.Floor(rule, "dereferences / hand-offs of possibly-nil message pointers examined", floor, n)
	_ = roots
}

func isOneofWrapper(t types.Type) bool {
	p, ok := t.(*types.Pointer)
	if !ok {
		return false
	}
	n, ok := p.Elem().(*types.Named)
	if !ok {
		return false
	}
	return strings.Contains(n.Obj().Name(), "_") // generated oneof wrapper types are Msg_Field
}

// ---------------------------------------------------------------------------
// T2

// forwarding computes, for repo functions, which parameters flow into the data
// operand of encoding/binary.Read (directly or through other forwarders).
func (c *Ctx) readForwarders() map[*ssa.Function]map[int]bool {
	fwd := map[*ssa.Function]map[int]bool{}
	strip := func(v ssa.Value) ssa.Value {
		for i := 0; i < 4; i++ {
			switch x := v.(type) {
			case *ssa.MakeInterface:
				v = x.X
			case *ssa.ChangeInterface:
				v = x.X
			case *ssa.TypeAssert:
				v = x.X
			default:
				return v
			}
		}
		return v
	}
	for changed := true; changed; {
		changed = false
		for _, f := range c.P.RepoFunctions() {
			for _, call := range callsIn(f, func(ssa.CallInstruction) bool { return true }) {
				var dataArgs []ssa.Value
				if calleeIs(call, "encoding/binary.Read") {
					dataArgs = append(dataArgs, call.Common().Args[2])
				}
				if cal := call.Common().StaticCallee(); cal != nil && fwd[cal] != nil {
					for i := range fwd[cal] {
						if i < len(call.Common().Args) {
							dataArgs = append(dataArgs, call.Common().Args[i])
						}
					}
				}
				for _, a := range dataArgs {
					if p, ok := strip(a).(*ssa.Parameter); ok && p.Parent() == f {
						for i, q := range f.Params {
							if q == p {
								if fwd[f] == nil {
									fwd[f] = map[int]bool{}
								}
								if !fwd[f][i] {
									fwd[f][i] = true
									changed = true
								}
							}
						}
					}
				}
			}
		}
	}
	return fwd
}

// decodeTargets: addresses in f that receive decoded data.
func (c *Ctx) decodeTargets(f *ssa.Function, fwd map[*ssa.Function]map[int]bool) map[ssa.Value]bool {
	out := map[ssa.Value]bool{}
	strip := func(v ssa.Value) ssa.Value {
		for i := 0; i < 4; i++ {
			switch x := v.(type) {
			case *ssa.MakeInterface:
				v = x.X
			case *ssa.ChangeInterface:
				v = x.X
			default:
				return v
			}
		}
		return v
	}
	for _, call := range callsIn(f, func(ssa.CallInstruction) bool { return true }) {
		if calleeIs(call, "encoding/binary.Read") {
			out[strip(call.Common().Args[2])] = true
		}
		if cal := call.Common().StaticCallee(); cal != nil && fwd[cal] != nil {
			for i := range fwd[cal] {
				if i < len(call.Common().Args) {
					out[strip(call.Common().Args[i])] = true
				}
			}
		}
	}
	return out
}

type allocSink struct {
	instr ssa.Instruction
	size  ssa.Value
	kind  string
}

// decodedOrigin: does v derive from a decoded integer? returns a description.
func (c *Ctx) decodedOrigin(v ssa.Value, fwd map[*ssa.Function]map[int]bool, cache map[*ssa.Function]map[ssa.Value]bool) (string, int, bool) {
	sl := flow.NewSlicer(c.P)
	sl.LiftParams = 3
	found := ""
	bits := 0
	targets := func(f *ssa.Function) map[ssa.Value]bool {
		if t, ok := cache[f]; ok {
			return t
		}
		t := c.decodeTargets(f, fwd)
		cache[f] = t
		return t
	}
	note := func(name string, b int) {
		if b > bits {
			found, bits = name, b
		} else if found == "" {
			found = name
		}
	}
	c.lastCarrier = ""
	sl.Visit(v, func(x ssa.Value) bool {
		// the first struct field the value passed through on its way to the sink (nearest to the sink): names the
		// decoded quantity independent of the function the sink sits in
		if c.lastCarrier == "" {
			switch y := x.(type) {
			case *ssa.FieldAddr:
				c.lastCarrier = carrierName(y.X.Type(), y.Field)
			case *ssa.Field:
				c.lastCarrier = carrierName(y.X.Type(), y.Field)
			}
		}
		switch y := x.(type) {
		case *ssa.Call:
			if bi, ok := y.Call.Value.(*ssa.Builtin); ok && (bi.Name() == "len" || bi.Name() == "cap") {
				return false // the length of data that already exists is not a decoded integer
			}
			if f := y.Call.StaticCallee(); f != nil && f.Pkg != nil && f.Pkg.Pkg.Path() == "encoding/binary" && strings.HasPrefix(f.Name(), "Uint") {
				note("binary."+f.Name(), basicBitsOf(y.Type()))
				return false
			}
			return true
		case *ssa.Lookup:
			if isConstTable(c, y.X) {
				return false // bounded by the table's constants
			}
		case *ssa.Alloc:
			if y.Parent() != nil && targets(y.Parent())[y] {
				b := 64
				if pt, ok := y.Type().(*types.Pointer); ok {
					b = basicBitsOf(pt.Elem())
				}
				note("binary.Read into "+y.Comment, b)
				return false
			}
		case *ssa.FieldAddr:
			if y.Parent() != nil && targets(y.Parent())[y] {
				b := 64
				if pt, ok := y.Type().(*types.Pointer); ok {
					b = basicBitsOf(pt.Elem())
				}
				note("binary.Read into field "+flow.FieldName(y), b)
				return false
			}
			// fields of structs filled by decoders: any store of a decoded value into the same field
		}
		return true
	}, nil)
	return found, bits, found != ""
}

// carrierName renders Type.Field for a field of a named struct type declared in the repository ("" otherwise).
func carrierName(t types.Type, idx int) string {
	for {
		if p, ok := t.(*types.Pointer); ok {
			t = p.Elem()
			continue
		}
		break
	}
	n, ok := t.(*types.Named)
	if !ok || n.Obj().Pkg() == nil || !strings.HasPrefix(n.Obj().Pkg().Path(), load.RootModule) {
		return ""
	}
	st, ok := n.Underlying().(*types.Struct)
	if !ok || idx >= st.NumFields() {
		return ""
	}
	return n.Obj().Name() + "." + st.Field(idx).Name()
}

func basicBitsOf(t types.Type) int {
	if b, ok := t.Underlying().(*types.Basic); ok {
		return basicBits(b)
	}
	return 64
}

func isConstTable(c *Ctx, m ssa.Value) bool {
	ld, ok := m.(*ssa.UnOp)
	if !ok {
		return false
	}
	g, ok := ld.X.(*ssa.Global)
	if !ok {
		return false
	}
	// every MapUpdate into the map stored to g (in init) has a constant value
	okAll, n := true, 0
	for _, v := range globalStores(c, g) {
		mm, ok := v.(*ssa.MakeMap)
		if !ok {
			return false
		}
		for _, r := range nonDebugRefs(mm) {
			if mu, ok := r.(*ssa.MapUpdate); ok {
				n++
				if _, isK := mu.Value.(*ssa.Const); !isK {
					okAll = false
				}
			}
		}
	}
	return okAll && n > 0
}

// boundedBefore: block b is dominated by an ordering comparison on a value that
// shares its source with size.
func boundedBefore(b *ssa.BasicBlock, size ssa.Value) bool {
	same := func(x ssa.Value) bool {
		x, s := stripConv(x), stripConv(size)
		if x == s {
			return true
		}
		lx, ok1 := x.(*ssa.UnOp)
		ls, ok2 := s.(*ssa.UnOp)
		if ok1 && ok2 && lx.Op == token.MUL && ls.Op == token.MUL {
			if lx.X == ls.X {
				return true
			}
			px, ps := flow.PathOf(lx), flow.PathOf(ls)
			return len(px.Fields) > 0 && px.Equal(ps)
		}
		return false
	}
	for _, cf := range dominatingConds(b) {
		bo, ok := cf.Cond.(*ssa.BinOp)
		if !ok {
			continue
		}
		switch bo.Op {
		case token.LSS, token.GTR, token.LEQ, token.GEQ:
			if same(bo.X) || same(bo.Y) {
				return true
			}
		}
	}
	return false
}

func stripConv(v ssa.Value) ssa.Value {
	for i := 0; i < 4; i++ {
		switch x := v.(type) {
		case *ssa.Convert:
			v = x.X
		case *ssa.ChangeType:
			v = x.X
		default:
			return v
		}
	}
	return v
}

// allocRule: T2. known maps construct → reason for known findings is applied by the caller through known_findings.json.
func (c *Ctx) allocRule(rule string, fns []*ssa.Function, V map[*ssa.Function]bool, loopFns map[*ssa.Function]bool) {
	fwd := c.readForwarders()
	cache := map[*ssa.Function]map[ssa.Value]bool{}
	n := 0
	for _, f := range fns {
		for _, b := range f.Blocks {
			for _, in := range b.Instrs {
				var sinks []allocSink
				switch x := in.(type) {
				case *ssa.MakeSlice:
					sinks = append(sinks, allocSink{x, x.Len, "make"})
					if x.Cap != x.Len {
						sinks = append(sinks, allocSink{x, x.Cap, "make"})
					}
				case *ssa.Call:
					if calleeIs(x, "(*bytes.Buffer).Grow") {
						sinks = append(sinks, allocSink{x, x.Call.Args[1], "Grow"})
					}
					if calleeIs(x, "strings.Repeat") || calleeIs(x, "bytes.Repeat") {
						sinks = append(sinks, allocSink{x, x.Call.Args[1], "Repeat"})
					}
				}
				for _, s := range sinks {
					if _, isK := s.size.(*ssa.Const); isK {
						continue
					}
					n++
					origin, dbits, decoded := c.decodedOrigin(s.size, fwd, cache)
					carrier := c.lastCarrier
					bits := basicBitsOf(stripConv(s.size).Type())
					if dbits > 0 && dbits < bits {
						bits = dbits
					}
					construct := load.FuncName(f) + ":" + s.kind + " sized by " + strings.TrimPrefix(origin, "binary.")
					if !decoded {
						c.S.OK(rule, load.FuncName(f)+":"+s.kind+"@"+shortPos(c, s.instr), c.pos(s.instr.Pos()), "size does not derive from a decoded integer", true)
						continue
					}
					if bits <= 8 {
						c.S.OK(rule, construct, c.pos(s.instr.Pos()), "size is an 8-bit decoded value (at most 255)", true)
						continue
					}
					if boundedBefore(b, s.size) {
						c.S.OK(rule, construct, c.pos(s.instr.Pos()), "decoded size is compared with a bound before allocating", true)
						continue
					}
					if carrier != "" {
						// a finding is identified by what is unbounded (sink kind + decoded field), not by the function
						// the allocation currently sits in
						construct = s.kind + " sized by " + carrier
					}
					c.S.Bad(rule, construct, c.pos(s.instr.Pos()), fmt.Sprintf("%s in %s allocates a size taken from the input (%s, %d bits) with no preceding bound: a few input bytes can request gigabytes", s.kind, load.FuncName(f), origin, bits))
				}
			}
		}
	}
	c.S.Floor(rule, "non-constant allocation sizes examined", 3, n)
}

func shortPos(c *Ctx, in ssa.Instruction) string {
	p := c.P.Fset.Position(in.Pos())
	return fmt.Sprintf("L%d", p.Line)
}

// ---------------------------------------------------------------------------
// T4 (layout guards) over a set of packages, restricted to functions of V.

func (c *Ctx) guardRule(rule string, rels []string, V map[*ssa.Function]bool, floor int) {
	byPath := map[string]*packages.Package{}
	for _, r := range c.P.Roots {
		byPath[r.PkgPath] = r
	}
	var pkgs []*packages.Package
	for _, rel := range rels {
		if p := byPath[repoPath(rel)]; p != nil {
			pkgs = append(pkgs, p)
		}
	}
	inV := map[string]bool{}
	for f := range V {
		if f != nil && f.Object() != nil {
			inV[f.Object().(*types.Func).FullName()] = true
		}
	}
	ex := layout.New(pkgs)
	n := 0
	for _, p := range pkgs {
		for _, f := range ex.Funcs(p.PkgPath) {
			if !inV[f.FullName()] || strings.HasSuffix(c.P.Fset.Position(f.Pos()).Filename, "_test.go") {
				continue
			}
			for _, t := range ex.Tables(f) {
				pi, isParam := paramIndex(t)
				if !isParam {
					continue
				}
				maxHi := int64(0)
				for _, r := range t.Ranges {
					if r.Hi > maxHi {
						maxHi = r.Hi
					}
				}
				n++
				name := t.Name() + ":length guard"
				if t.Guard >= maxHi {
					c.S.OK(rule, name, c.pos(t.Decl.Pos()), fmt.Sprintf("guards len >= %#x before touching up to %#x", t.Guard, maxHi), true)
					continue
				}
				if !t.Fn.Exported() || isMethodOfUnexported(t.Fn) {
					if ok, why := callSitesWideEnough(c, ex, pkgs, t.Fn, pi, maxHi); ok {
						c.S.OK(rule, name, c.pos(t.Decl.Pos()), "unexported; "+why, true)
						continue
					}
				}
				c.S.Bad(rule, name, c.pos(t.Decl.Pos()), fmt.Sprintf("constant offsets up to %#x into an input slice with no sufficient length guard (guard %d): shorter input panics", maxHi, t.Guard))
			}
		}
	}
	c.S.Floor(rule, "functions with constant offsets into a []byte parameter", floor, n)
}

// ---------------------------------------------------------------------------
// T5

func (c *Ctx) panicRule(rule string, fns []*ssa.Function, suppress map[string]string) {
	n := 0
	for _, f := range fns {
		for _, b := range f.Blocks {
			for _, in := range b.Instrs {
				switch x := in.(type) {
				case *ssa.Panic:
					if !x.Pos().IsValid() {
						continue // compiler-generated (type switch / assert without comma-ok handled below)
					}
					n++
					key := load.FuncName(f) + ":panic"
					if why, ok := suppress[key]; ok {
						c.S.OK(rule, key, c.pos(x.Pos()), "suppressed (one named symbol): "+why, false)
						continue
					}
					c.S.Bad(rule, key, c.pos(x.Pos()), "explicit panic reachable from an entry point that handles untrusted input")
				case *ssa.Call:
					cal := x.Call.StaticCallee()
					if cal == nil || !strings.HasPrefix(cal.Name(), "Must") || load.FuncInRepo(cal) {
						continue
					}
					n++
					allConst := true
					for _, a := range x.Call.Args {
						if _, isK := a.(*ssa.Const); !isK {
							allConst = false
						}
					}
					key := load.FuncName(f) + ":" + cal.Name()
					if allConst {
						c.S.OK(rule, key, c.pos(x.Pos()), "Must helper on a constant", false)
						continue
					}
					// non-constant: accepted if the same access path went through the fallible parser earlier (dominating, ok edge)
					if c.parsedBefore(x) {
						c.S.OK(rule, key, c.pos(x.Pos()), "input already accepted by the fallible parser on every path", true)
						continue
					}
					c.S.Bad(rule, key, c.pos(x.Pos()), cal.Name()+" on a non-constant value: malformed input panics")
				}
			}
		}
	}
	// T5b: Must* helpers hidden behind a third-party call. A call from the closure into a non-standard-library
	// dependency whose own code (same module, depth ≤ 3) applies a Must* helper to a non-constant value panics on
	// malformed input just as a direct Must* call would; the protobuf runtime is excluded (its Must* sites are on
	// descriptors, not on message contents).
	nExt := 0
	extCache := map[*ssa.Function]string{}
	var hiddenMust func(g *ssa.Function, mod string, depth int, seen map[*ssa.Function]bool) string
	hiddenMust = func(g *ssa.Function, mod string, depth int, seen map[*ssa.Function]bool) string {
		if g == nil || g.Blocks == nil || seen[g] || depth > 3 {
			return ""
		}
		seen[g] = true
		for _, b := range g.Blocks {
			for _, in := range b.Instrs {
				call, ok := in.(*ssa.Call)
				if !ok {
					continue
				}
				cal := call.Call.StaticCallee()
				if cal == nil {
					continue
				}
				if strings.HasPrefix(cal.Name(), "Must") && cal.Signature.Recv() == nil {
					for _, a := range call.Call.Args {
						if _, isK := a.(*ssa.Const); !isK {
							return cal.String() + " in " + g.String()
						}
					}
				}
				if cal.Pkg != nil && strings.HasPrefix(cal.Pkg.Pkg.Path(), mod) {
					if w := hiddenMust(cal, mod, depth+1, seen); w != "" {
						return w
					}
				}
			}
		}
		return ""
	}
	for _, f := range fns {
		for _, call := range callsIn(f, func(call ssa.CallInstruction) bool {
			cal := call.Common().StaticCallee()
			if cal == nil || cal.Pkg == nil || load.FuncInRepo(cal) {
				return false
			}
			path := cal.Pkg.Pkg.Path()
			first := strings.SplitN(path, "/", 2)[0]
			return strings.Contains(first, ".") && !strings.HasPrefix(path, "google.golang.org/protobuf") && !strings.HasPrefix(path, "golang.org/x/")
		}) {
			cal := call.Common().StaticCallee()
			nExt++
			w, done := extCache[cal]
			if !done {
				parts := strings.Split(cal.Pkg.Pkg.Path(), "/")
				mod := strings.Join(parts[:minInt(3, len(parts))], "/")
				w = hiddenMust(cal, mod, 0, map[*ssa.Function]bool{})
				extCache[cal] = w
			}
			if w == "" {
				continue
			}
			hasInput := false
			for _, a := range call.Common().Args {
				if _, isK := a.(*ssa.Const); !isK {
					hasInput = true
				}
			}
			if !hasInput {
				continue
			}
			c.S.Bad(rule+"b", load.FuncName(f)+":"+cal.Name(), c.pos(call.Pos()), "this dependency function applies "+w+" to a value it is given: malformed input handed to it panics instead of returning an error")
		}
	}
	c.S.Count("third_party_calls_examined", nExt)
	c.S.Floor(rule, "panic constructs examined", 0, n)
	c.S.OK(rule, "closure:panic constructs", "", fmt.Sprintf("%d explicit panic / Must* sites examined; %d calls into third-party code checked for hidden Must* helpers", n, nExt), false)
}

func minInt(a, b int) int {
	if a < b {
		return a
	}
	return b
}

// parsedBefore: a Must<Parse>(x) call whose operand's access path was handed to the
// corresponding fallible parser in a dominating position with its error found nil.
func (c *Ctx) parsedBefore(call *ssa.Call) bool {
	cal := call.Call.StaticCallee()
	want := strings.TrimPrefix(cal.Name(), "Must")
	f := call.Parent()
	if len(call.Call.Args) == 0 {
		return false
	}
	ap := flow.PathOf(call.Call.Args[0])
	// validated by a sibling step of the caller: the operand is field F of parameter P;
	// every caller first calls (with its error checked) a function that applies the
	// fallible parser to field F of the same object and returns its error.
	if p, ok := ap.Root.(*ssa.Parameter); ok && len(ap.Fields) == 1 {
		pidx := -1
		for i, q := range f.Params {
			if q == p {
				pidx = i
			}
		}
		node := c.P.CallGraph().Nodes[f]
		if pidx >= 0 && node != nil && len(node.In) > 0 {
			all := true
			for _, e := range node.In {
				k := e.Caller.Func
				if e.Site == nil || !load.FuncInRepo(k) || c.isTestFunc(k) {
					continue
				}
				obj := e.Site.Common().Args[pidx]
				okCaller := false
				for _, vc := range callsIn(k, func(cc ssa.CallInstruction) bool {
					v := cc.Common().StaticCallee()
					return v != nil && v != f && load.FuncInRepo(v) && errIndex(v.Signature) >= 0
				}) {
					v := vc.Common().StaticCallee()
					passes := false
					for _, a := range vc.Common().Args {
						if a == obj {
							passes = true
						}
					}
					if !passes || !c.validatesField(v, want, cal, ap.Fields[0]) {
						continue
					}
					if cv := vc.Value(); cv != nil && errKnownNil(e.Site.Block(), cv) {
						okCaller = true
					}
				}
				if !okCaller {
					all = false
				}
			}
			if all {
				return true
			}
		}
	}
	for _, other := range callsIn(f, func(cc ssa.CallInstruction) bool {
		oc := cc.Common().StaticCallee()
		return oc != nil && oc.Name() == want && oc.Pkg == cal.Pkg
	}) {
		oa := other.Common().Args[0]
		if oa != call.Call.Args[0] && !flow.PathOf(oa).Equal(ap) {
			continue
		}
		ov := other.Value()
		if ov == nil {
			continue
		}
		for _, r := range nonDebugRefs(ov) {
			if ex, ok := r.(*ssa.Extract); ok && ex.Index == 1 && errKnownNil(call.Block(), ex) {
				return true
			}
		}
	}
	return false
}

// validatesField: v applies the fallible parser `want` (same package as the Must
// helper) to field `field` of one of its parameters and returns a non-nil error
// when it fails.
func (c *Ctx) validatesField(v *ssa.Function, want string, must *ssa.Function, field string) bool {
	for _, call := range callsIn(v, func(cc ssa.CallInstruction) bool {
		oc := cc.Common().StaticCallee()
		return oc != nil && oc.Name() == want && oc.Pkg == must.Pkg
	}) {
		ap := flow.PathOf(call.Common().Args[0])
		if _, isParam := ap.Root.(*ssa.Parameter); !isParam || len(ap.Fields) != 1 || ap.Fields[0] != field {
			continue
		}
		cv := call.Value()
		if cv == nil {
			continue
		}
		for _, r := range nonDebugRefs(cv) {
			ex, ok := r.(*ssa.Extract)
			if !ok || ex.Index != 1 {
				continue
			}
			// the non-nil edge of the error leads to an error return
			for _, u := range nonDebugRefs(ex) {
				bo, ok := u.(*ssa.BinOp)
				if !ok || bo.Op != token.NEQ || !isNilK(bo.Y) {
					continue
				}
				for _, u2 := range nonDebugRefs(bo) {
					if iff, ok := u2.(*ssa.If); ok && isErrorExit(iff.Block().Succs[0]) {
						return true
					}
				}
			}
		}
	}
	return false
}
