package rules

import (
	"fmt"
	"go/ast"
	"go/constant"
	"go/token"
	"go/types"
	"sort"
	"strings"

	"golang.org/x/tools/go/packages"
	"golang.org/x/tools/go/ssa"

	"verif/checker/esp"
	"verif/checker/flow"
	"verif/checker/layout"
	"verif/checker/load"
)

func init() {
	register(&RuleSet{
		ID:      "C18",
		Arch386: true,
		Explanation: "R15 (= C04.R11) a loop that examines a slice in whole chunks of k bytes (i+k <= len) leaves no unexamined rest: the length is a multiple of k, or the counter is used behind the loop for the rest. " +
			"R14 a field that travels with its size is cut out by that size: no decoding function of eventlog / ovmf/abi (reads an io.Reader or []byte, can fail) delimits a value by a content search (Index*, LastIndex*, Cut*, Split*, Trim*, Fields* of bytes/strings). " +
			"Layouts are extracted from the typed AST of ovmf/abi, sev, tdx and eventlog: for every function and every []byte parameter / local byte array, the constant ranges written and read (binary Put/Get primitives, copy, indexed stores, constant fill loops, delegation of a constant sub-slice to a callee with its own table, range-writer helpers taking (out, lo, hi)). " +
			"R1 tiling and width: in every writer the ranges are pairwise disjoint; each range is as long as the primitive is wide; for a []byte parameter they tile [0, K) contiguously where K is the function's own length guard (for zero-initialised local arrays gaps are zero bytes and allowed). " +
			"R2 reader/writer agreement: for every struct type with both a constant-layout writer and reader, range ↦ field is the same map in both. " +
			"R3 refusal: every function with constant accesses to a []byte parameter has a length guard covering its largest bound (unexported functions: every call site passes a constant-width slice of sufficient width); narrowing integer conversions in writers are preceded by a range check of the source that returns an error. " +
			"R4 stream codecs: for every type with a Marshal/Unmarshal (or MarshalToBytes/UnmarshalFromBytes) pair the ordered field sequences agree; fixed-size HOB writers return the sum of the static sizes of what they write. " +
			"R5 read counts: every io.Reader.Read call in eventlog and ovmf/abi has its count compared with the requested length (or is io.ReadFull). " +
			"R13 (ESP) a function of the stream codec packages does not return nil on a path on which one of its fallible steps failed (steps whose error is compared with io.EOF aside). " +
			"R12 a …FromBytes decoder that reads its input through a bytes reader returns success only after draining it (io.ReadAll or Len() == 0). " +
			"R11 a stream decoder accepts io.EOF as the end of input only when it comes from a primitive read made directly in that function (the first bytes of the next record), never from a multi-field decoder. " +
			"R10 no decoder of the stream codec packages calls Reader.Read directly; fixed-size fields are read with io.ReadFull / binary.Read / io.ReadAll. " +
			"R9 an encoder method (Marshal*, Put*, WriteTo, Bytes) of the codec packages never writes through its receiver. " +
			"R8 a decoding helper that returns its result through a pointer-to-slice parameter assigns it before every successful return (no stale destination). " +
			"R7 a stream encoder (function of eventlog / ovmf/abi taking a writer) never writes a prefix x[:k] of an encoded field unless len(x) == k was established on the path: an over-long value is refused, not truncated. " +
			"R6 no slice in the codec packages is extended beyond its own length (bound computed upwards from len(x) or admitted by cap(x)): padding is appended, never uncovered from the backing array. R1 additionally treats copy(p[lo:hi], src) in a range-writer helper as filling the range only if the helper itself enforces len(src) == hi-lo. " +
			"Not covered: decode∘encode identity as values, zero-padding tolerance, GUID byte-order correctness.",
		Assumptions: []string{"go/types constant evaluation", "encoding/binary primitive widths", "var arrays are zero-initialised"},
		Run:         runC18,
	})
}

var c18Pkgs = []string{"ovmf/abi", "sev", "tdx", "eventlog"}

func runC18(c *Ctx) {
	// R15 = C04.R11 (chunked scans): a check that walks a fixed-layout field in whole chunks (a word at a time) also
	// looks at the bytes behind the last whole chunk — "non-zero reserved bytes are refused" holds for every byte.
	c.borrow("R15/C04.", runC04, func(rule, _ string) bool { return rule == "R11" })
	defer c18SizedNotSearched(c)
	var pkgs []*packages.Package
	byPath := map[string]*packages.Package{}
	for _, r := range c.P.Roots {
		byPath[r.PkgPath] = r
	}
	for _, rel := range c18Pkgs {
		if p := byPath[repoPath(rel)]; p != nil {
			pkgs = append(pkgs, p)
		}
	}
	if !c.S.Floor("R0", "codec packages loaded", len(c18Pkgs), len(pkgs)) {
		return
	}
	ex := layout.New(pkgs)
	var writers, readers []*layout.Table
	for _, p := range pkgs {
		for _, f := range ex.Funcs(p.PkgPath) {
			if strings.HasSuffix(c.P.Fset.Position(f.Pos()).Filename, "_test.go") {
				continue
			}
			for _, t := range ex.Tables(f) {
				if t.Write {
					writers = append(writers, t)
				} else {
					readers = append(readers, t)
				}
			}
		}
	}
	c.S.Count("layout_tables", len(writers)+len(readers))

	// ---------------- R1 ----------------
	nW := 0
	for _, t := range writers {
		if len(t.Ranges) == 0 {
			continue
		}
		_, isParam := paramIndex(t)
		// a table worth checking: several ranges, or a guarded parameter
		if len(t.Ranges) < 2 && t.Size() < 0 {
			continue
		}
		nW++
		name := t.Name()
		pos := c.pos(t.Decl.Pos())
		var problems []string
		for _, r := range t.Ranges {
			if r.Hi <= r.Lo {
				problems = append(problems, fmt.Sprintf("empty or inverted range [%#x,%#x) (%s %s)", r.Lo, r.Hi, r.How, r.Field))
			}
			if r.Width > 0 && r.Width != r.Hi-r.Lo {
				problems = append(problems, fmt.Sprintf("range [%#x,%#x) for %s is %d bytes but %s moves %d", r.Lo, r.Hi, r.Field, r.Hi-r.Lo, r.How, r.Width))
			}
		}
		for i := 1; i < len(t.Ranges); i++ {
			a, b := t.Ranges[i-1], t.Ranges[i]
			if b.Lo < a.Hi {
				problems = append(problems, fmt.Sprintf("[%#x,%#x) %s overlaps [%#x,%#x) %s", a.Lo, a.Hi, a.Field, b.Lo, b.Hi, b.Field))
			}
			if b.Lo > a.Hi && isParam {
				problems = append(problems, fmt.Sprintf("gap [%#x,%#x) is never written (caller's bytes are left in place)", a.Hi, b.Lo))
			}
		}
		if isParam && t.Size() >= 0 {
			if t.Ranges[0].Lo != 0 {
				problems = append(problems, fmt.Sprintf("first range starts at %#x, not 0", t.Ranges[0].Lo))
			}
			last := t.Ranges[len(t.Ranges)-1]
			maxHi := int64(0)
			for _, r := range t.Ranges {
				if r.Hi > maxHi {
					maxHi = r.Hi
				}
			}
			_ = last
			if maxHi != t.Size() {
				problems = append(problems, fmt.Sprintf("ranges end at %#x but the function guards a length of %#x", maxHi, t.Size()))
			}
		}
		if t.ArrLen >= 0 {
			for _, r := range t.Ranges {
				if r.Hi > t.ArrLen {
					problems = append(problems, fmt.Sprintf("range [%#x,%#x) exceeds the %d-byte array", r.Lo, r.Hi, t.ArrLen))
				}
			}
		}
		if len(problems) == 0 {
			c.S.OK("R1", name, pos, fmt.Sprintf("%d ranges tile [0,%#x) exactly", len(t.Ranges), maxInt64(t.Size(), t.Ranges[len(t.Ranges)-1].Hi)), true)
		} else {
			sort.Strings(problems)
			c.S.Bad("R1", name, pos, strings.Join(problems, "; "))
		}
	}
	c.S.Floor("R1", "constant-layout writers", 12, nW)

	// ---------------- R2 ----------------
	type assoc struct {
		t   *layout.Table
		typ string
	}
	var ws, rs []assoc
	for _, t := range writers {
		if _, isParam := paramIndex(t); !isParam {
			continue
		}
		if ty := assocType(t, true); ty != "" {
			ws = append(ws, assoc{t, ty})
		}
	}
	for _, t := range readers {
		if _, isParam := paramIndex(t); !isParam {
			continue
		}
		if ty := assocType(t, false); ty != "" {
			rs = append(rs, assoc{t, ty})
		}
	}
	nPairs := 0
	for _, w := range ws {
		for _, r := range rs {
			if w.typ != r.typ {
				continue
			}
			nPairs++
			wm, rm := rangeFields(w.t), rangeFields(r.t)
			var diffs []string
			for k, wf := range wm {
				rf, ok := rm[k]
				if !ok {
					diffs = append(diffs, fmt.Sprintf("%s written (%s) but never read", k, wf))
				} else if !sameField(wf, rf) {
					diffs = append(diffs, fmt.Sprintf("%s holds %s in the writer but is decoded into %s", k, wf, rf))
				}
			}
			for k, rf := range rm {
				if _, ok := wm[k]; !ok {
					diffs = append(diffs, fmt.Sprintf("%s read (%s) but never written", k, rf))
				}
			}
			sort.Strings(diffs)
			name := w.typ + ": " + layout.FuncName(w.t.Fn) + " ↔ " + layout.FuncName(r.t.Fn)
			c.S.Check(len(diffs) == 0, "R2", name, c.pos(r.t.Decl.Pos()), fmt.Sprintf("%d ranges map to the same fields in both directions", len(wm)), strings.Join(diffs, "; "))
		}
	}
	c.S.Floor("R2", "reader/writer pairs", 6, nPairs)

	// ---------------- R3 ----------------
	nGuard := 0
	for _, t := range append(append([]*layout.Table{}, writers...), readers...) {
		pi, isParam := paramIndex(t)
		if !isParam {
			continue
		}
		maxHi := int64(0)
		for _, r := range t.Ranges {
			if r.Hi > maxHi {
				maxHi = r.Hi
			}
		}
		nGuard++
		name := t.Name() + ":length guard"
		if t.Guard >= maxHi {
			c.S.OK("R3", name, c.pos(t.Decl.Pos()), fmt.Sprintf("guards len >= %#x before touching up to %#x", t.Guard, maxHi), true)
			continue
		}
		// unexported: every call site passes a slice of constant sufficient width
		if !t.Fn.Exported() || isMethodOfUnexported(t.Fn) {
			if ok, why := callSitesWideEnough(c, ex, pkgs, t.Fn, pi, maxHi); ok {
				c.S.OK("R3", name, c.pos(t.Decl.Pos()), "unexported; "+why, true)
				continue
			}
		}
		c.S.Bad("R3", name, c.pos(t.Decl.Pos()), fmt.Sprintf("accesses the slice up to offset %#x with no length guard (guard: %d): a shorter input panics instead of being refused", maxHi, t.Guard))
	}
	c.S.Floor("R3", "functions with constant offsets into a []byte parameter", 15, nGuard)
	// narrowing conversions in writers
	nNarrow := 0
	for _, t := range writers {
		info := t.Pkg.TypesInfo
		ast.Inspect(t.Decl.Body, func(n ast.Node) bool {
			call, ok := n.(*ast.CallExpr)
			if !ok || len(call.Args) != 1 {
				return true
			}
			tv, ok := info.Types[call.Fun]
			if !ok || !tv.IsType() {
				return true
			}
			to, ok1 := tv.Type.Underlying().(*types.Basic)
			at := info.Types[call.Args[0]]
			from, ok2 := at.Type.Underlying().(*types.Basic)
			if !ok1 || !ok2 || to.Info()&types.IsInteger == 0 || from.Info()&types.IsInteger == 0 || at.Value != nil {
				return true
			}
			tb, fb := basicBits(to), basicBits(from)
			if tb >= fb {
				return true
			}
			// an in-memory length in 32 bits needs a 4 GiB object to wrap (as for the stream encoders below)
			if lc, isCall := ast.Unparen(call.Args[0]).(*ast.CallExpr); isCall && tb >= 32 {
				if id, isId := lc.Fun.(*ast.Ident); isId && id.Name == "len" {
					if _, isB := info.Uses[id].(*types.Builtin); isB {
						return true
					}
				}
			}
			nNarrow++
			src := exprString(call.Args[0])
			if slack, repoConst, okS := rangeCheckSlack(info, t.Decl, call, call.Args[0], tb); okS && !repoConst {
				c.S.Check(slack == 0, "R3", layout.FuncName(t.Fn)+":narrowing "+src+" refuses only what does not fit", c.pos(call.Pos()), "the refusing threshold is the field's capacity", fmt.Sprintf("the range check in front of the %d-bit narrowing of %s turns away %d value(s) that fit the field: an in-range value the decoder accepts cannot be encoded", tb, src, slack))
			}
			ok = hasRangeCheck(info, t.Decl, call, call.Args[0], tb)
			c.S.Check(ok, "R3", layout.FuncName(t.Fn)+":narrowing "+src, c.pos(call.Pos()), fmt.Sprintf("%s is range-checked before being narrowed to %d bits", src, tb), fmt.Sprintf("%s is narrowed to %d bits with no preceding range check: an out-of-range value is silently truncated instead of refused", src, tb))
			return true
		})
	}
	c.S.Floor("R3", "narrowing conversions in writers", 3, nNarrow)
	// the same for the stream encoders of eventlog (Marshal* functions), for prefixes and fields of
	// at most 16 bits: the range check must be on the very expression that is narrowed. (A 32-bit
	// prefix of an in-memory length needs a 4 GiB object to wrap and is not examined.)
	nStreamNarrow := 0
	if ep := byPath[repoPath("eventlog")]; ep != nil {
		for _, file := range ep.Syntax {
			if strings.HasSuffix(c.P.Fset.File(file.Pos()).Name(), "_test.go") {
				continue
			}
			for _, d := range file.Decls {
				fd, ok := d.(*ast.FuncDecl)
				if !ok || fd.Body == nil || !strings.HasPrefix(fd.Name.Name, "Marshal") && !strings.HasPrefix(fd.Name.Name, "write") && !strings.HasPrefix(fd.Name.Name, "Write") {
					continue
				}
				info := ep.TypesInfo
				fname := "eventlog." + fd.Name.Name
				if rn := recvTypeName(fd); rn != "" {
					fname = "eventlog." + rn + "." + fd.Name.Name
				}
				ast.Inspect(fd.Body, func(n ast.Node) bool {
					call, ok := n.(*ast.CallExpr)
					if !ok || len(call.Args) != 1 {
						return true
					}
					tv, ok := info.Types[call.Fun]
					if !ok || !tv.IsType() {
						return true
					}
					to, ok1 := tv.Type.Underlying().(*types.Basic)
					at := info.Types[call.Args[0]]
					if at.Type == nil {
						return true
					}
					from, ok2 := at.Type.Underlying().(*types.Basic)
					if !ok1 || !ok2 || to.Info()&types.IsInteger == 0 || from.Info()&types.IsInteger == 0 || at.Value != nil {
						return true
					}
					tb, fb := basicBits(to), basicBits(from)
					if tb >= fb || tb > 16 {
						return true
					}
					nStreamNarrow++
					src := exprString(call.Args[0])
					// exactness: the check refuses what does not fit and nothing else (a threshold that is a constant of
					// this repository is a format limit chosen on purpose and is left alone)
					if slack, repoConst, okS := rangeCheckSlack(info, fd, call, call.Args[0], tb); okS && !repoConst {
						c.S.Check(slack == 0, "R3", fname+":narrowing "+src+" refuses only what does not fit", c.pos(call.Pos()), "the refusing threshold is the field's capacity", fmt.Sprintf("the range check in front of the %d-bit narrowing of %s turns away %d value(s) that fit the field: an in-range value the decoder accepts cannot be encoded", tb, src, slack))
					}
					c.S.Check(hasRangeCheck(info, fd, call, call.Args[0], tb), "R3", fname+":narrowing "+src, c.pos(call.Pos()), fmt.Sprintf("%s is range-checked before being narrowed to %d bits", src, tb), fmt.Sprintf("%s is narrowed to %d bits with no preceding range check of that very expression: an out-of-range value wraps in the encoding instead of being refused", src, tb))
					return true
				})
			}
		}
	}
	c.S.Floor("R3", "narrowing conversions (≤ 16 bits) in the eventlog stream encoders", 1, nStreamNarrow)
	// and for the constructors of ovmf/abi (Create*): a length field computed as constant + variable needs a check of
	// the variable whose bound, plus the constant, still fits the field (finding F23: the bound was one alignment
	// unit too large and the 16-bit HobLength wrapped to 0)
	nCtorNarrow := 0
	if ap := byPath[repoPath("ovmf/abi")]; ap != nil {
		for _, file := range ap.Syntax {
			if strings.HasSuffix(c.P.Fset.File(file.Pos()).Name(), "_test.go") {
				continue
			}
			for _, d := range file.Decls {
				fd, ok := d.(*ast.FuncDecl)
				if !ok || fd.Body == nil || !strings.HasPrefix(fd.Name.Name, "Create") {
					continue
				}
				info := ap.TypesInfo
				ast.Inspect(fd.Body, func(n ast.Node) bool {
					call, ok := n.(*ast.CallExpr)
					if !ok || len(call.Args) != 1 {
						return true
					}
					tv, ok := info.Types[call.Fun]
					if !ok || !tv.IsType() {
						return true
					}
					to, ok1 := tv.Type.Underlying().(*types.Basic)
					at := info.Types[call.Args[0]]
					if at.Type == nil {
						return true
					}
					from, ok2 := at.Type.Underlying().(*types.Basic)
					if !ok1 || !ok2 || to.Info()&types.IsInteger == 0 || from.Info()&types.IsInteger == 0 || at.Value != nil {
						return true
					}
					tb, fb := basicBits(to), basicBits(from)
					if tb >= fb || tb > 16 {
						return true
					}
					nCtorNarrow++
					src := exprString(call.Args[0])
					okc := hasRangeCheck(info, fd, call, call.Args[0], tb) || hasAffineRangeCheck(info, fd, call, call.Args[0], tb)
					c.S.Check(okc, "R3", "ovmf/abi."+fd.Name.Name+":narrowing "+src, c.pos(call.Pos()), fmt.Sprintf("%s is bounded so that it fits %d bits", src, tb), fmt.Sprintf("%s is narrowed to %d bits, and no preceding check bounds it below 2^%d: for the largest values the check lets through the field wraps instead of the value being refused", src, tb, tb))
					return true
				})
			}
		}
	}
	c.S.Floor("R3", "narrowing conversions (≤ 16 bits) in the constructors of ovmf/abi", 1, nCtorNarrow)

	// ---------------- R4 stream codecs ----------------
	nStream := 0
	if ep := byPath[repoPath("eventlog")]; ep != nil {
		type pair struct{ m, u *ast.FuncDecl }
		pairs := map[string]*pair{}
		for _, file := range ep.Syntax {
			if strings.HasSuffix(c.P.Fset.Position(file.Pos()).Filename, "_test.go") {
				continue
			}
			for _, d := range file.Decls {
				fd, ok := d.(*ast.FuncDecl)
				if !ok || fd.Recv == nil || fd.Body == nil {
					continue
				}
				tn := recvTypeName(fd)
				switch fd.Name.Name {
				case "Marshal", "MarshalToBytes":
					if pairs[tn] == nil {
						pairs[tn] = &pair{}
					}
					pairs[tn].m = fd
				case "Unmarshal", "UnmarshalFromBytes":
					if pairs[tn] == nil {
						pairs[tn] = &pair{}
					}
					pairs[tn].u = fd
				}
			}
		}
		var names []string
		for n := range pairs {
			names = append(names, n)
		}
		sort.Strings(names)
		for _, n := range names {
			pr := pairs[n]
			if pr.m == nil || pr.u == nil {
				continue
			}
			mf, uf := fieldSequence(pr.m, ep.TypesInfo), fieldSequence(pr.u, ep.TypesInfo)
			if len(mf) < 2 && len(uf) < 2 {
				continue
			}
			nStream++
			c.S.Check(strings.Join(mf, ",") == strings.Join(uf, ","), "R4", "eventlog."+n+":field order", c.pos(pr.m.Pos()), fmt.Sprintf("marshal and unmarshal visit %v in the same order", mf), fmt.Sprintf("marshal order %v differs from unmarshal order %v", mf, uf))
		}
	}
	c.S.Floor("R4", "stream codec pairs in eventlog", 3, nStream)
	// fixed-size HOB writers
	nHob := 0
	if ap := byPath[repoPath("ovmf/abi")]; ap != nil {
		consts := map[string]int64{}
		decls := map[string]*ast.FuncDecl{}
		for _, file := range ap.Syntax {
			for _, d := range file.Decls {
				if fd, ok := d.(*ast.FuncDecl); ok && fd.Recv != nil && fd.Name.Name == "WriteTo" && fd.Body != nil {
					decls[recvTypeName(fd)] = fd
				}
			}
		}
		var sizeOf func(tn string, depth int) (int64, bool)
		sizeOf = func(tn string, depth int) (int64, bool) {
			if v, ok := consts[tn]; ok {
				return v, true
			}
			fd := decls[tn]
			if fd == nil || depth > 4 {
				return 0, false
			}
			total := int64(0)
			okAll := true
			ast.Inspect(fd.Body, func(n ast.Node) bool {
				call, ok := n.(*ast.CallExpr)
				if !ok {
					return true
				}
				// writeFieldsLE(w, a, b, c): a helper of the package that hands each element of its variadic
				// parameter to binary.Write in order is one binary.Write per argument
				if id, isIdent := call.Fun.(*ast.Ident); isIdent {
					if nfixed, ok := variadicBinaryWriter(ap, id); ok && call.Ellipsis == token.NoPos {
						for _, a := range call.Args[min(nfixed, len(call.Args)):] {
							tv := ap.TypesInfo.Types[a]
							if b, ok := tv.Type.Underlying().(*types.Basic); ok {
								total += int64(basicBits(b) / 8)
							} else {
								okAll = false
							}
						}
						return false
					}
				}
				sel, ok := call.Fun.(*ast.SelectorExpr)
				if !ok {
					return true
				}
				switch {
				case sel.Sel.Name == "Write" && len(call.Args) == 3: // binary.Write(w, order, v)
					if obj, ok := ap.TypesInfo.Uses[sel.Sel].(*types.Func); ok && obj.Pkg() != nil && obj.Pkg().Path() == "encoding/binary" {
						tv := ap.TypesInfo.Types[call.Args[2]]
						if b, ok := tv.Type.Underlying().(*types.Basic); ok {
							total += int64(basicBits(b) / 8)
						} else {
							okAll = false
						}
						return false
					}
				case sel.Sel.Name == "Write" && len(call.Args) == 1: // w.Write(arr[:])
					if se, ok := call.Args[0].(*ast.SliceExpr); ok {
						if at, ok := ap.TypesInfo.Types[se.X].Type.Underlying().(*types.Array); ok {
							total += at.Len()
							return false
						}
					}
					okAll = false
				case sel.Sel.Name == "WriteTo" && len(call.Args) == 1:
					rt := ap.TypesInfo.Types[sel.X].Type
					if named, ok := rt.(*types.Named); ok {
						if v, ok := sizeOf(named.Obj().Name(), depth+1); ok {
							total += v
							return false
						}
					}
					okAll = false
				}
				return true
			})
			if !okAll {
				return 0, false
			}
			consts[tn] = total
			return total, true
		}
		var tns []string
		for tn := range decls {
			tns = append(tns, tn)
		}
		sort.Strings(tns)
		for _, tn := range tns {
			fd := decls[tn]
			// returned constant
			var retK int64 = -1
			ast.Inspect(fd.Body, func(n ast.Node) bool {
				if rs, ok := n.(*ast.ReturnStmt); ok && len(rs.Results) == 2 {
					if id, ok := rs.Results[1].(*ast.Ident); ok && id.Name == "nil" {
						if tv := ap.TypesInfo.Types[rs.Results[0]]; tv.Value != nil {
							retK, _ = constant.Int64Val(constant.ToInt(tv.Value))
						}
					}
				}
				return true
			})
			if retK < 0 {
				continue
			}
			sum, ok := sizeOf(tn, 0)
			nHob++
			c.S.Check(ok && sum == retK, "R4", "ovmf/abi."+tn+".WriteTo:size", c.pos(fd.Pos()), fmt.Sprintf("writes %d bytes and reports %d", sum, retK), fmt.Sprintf("writes %d bytes of fields but reports the constant %d as its size", sum, retK))
		}
	}
	c.S.Floor("R4", "fixed-size HOB writers", 3, nHob)

	// ---------------- R5 read counts ----------------
	c.readCountRule("R5", []string{"eventlog", "ovmf/abi"}, 3)

	// ---------------- R6 no reslice past len ----------------
	// x[:h] with h computed upwards from len(x) (or admitted by a cap(x) test) exposes bytes of the
	// backing array that the encoder did not write: padding must be appended, not uncovered.
	nSl := 0
	for _, f := range c.P.RepoFunctions() {
		switch load.RelPkg(f) {
		case "eventlog", "ovmf/abi", "ovmf", "sev", "tdx":
		default:
			continue
		}
		if c.isTestFunc(f) {
			continue
		}
		for _, b := range f.Blocks {
			for _, in := range b.Instrs {
				sl, ok := in.(*ssa.Slice)
				if !ok || sl.High == nil {
					continue
				}
				if _, isSlice := sl.X.Type().Underlying().(*types.Slice); !isSlice {
					continue
				}
				nSl++
				grows := false
				var walk func(v ssa.Value, d int, underAdd bool)
				seen := map[ssa.Value]bool{}
				walk = func(v ssa.Value, d int, underAdd bool) {
					if v == nil || d > 6 || seen[v] {
						return
					}
					seen[v] = true
					if a, ok := lenArg(v); ok && underAdd && sameBytes(a, sl.X) {
						grows = true
						return
					}
					if call, ok := v.(*ssa.Call); ok {
						if bi, ok := call.Call.Value.(*ssa.Builtin); ok && bi.Name() == "cap" && sameBytes(call.Call.Args[0], sl.X) {
							grows = true
						}
						return
					}
					switch y := v.(type) {
					case *ssa.BinOp:
						if y.Op == token.SUB {
							// len(x) − a (+ b): an offset from the end, not a growth of x
							return
						}
						up := underAdd || y.Op == token.ADD || y.Op == token.MUL || y.Op == token.SHL || y.Op == token.OR
						walk(y.X, d+1, up)
						walk(y.Y, d+1, up)
					case *ssa.Convert:
						walk(y.X, d+1, underAdd)
					case *ssa.Phi:
						for _, e := range y.Edges {
							walk(e, d+1, underAdd)
						}
					}
				}
				walk(sl.High, 0, false)
				if grows {
					c.S.Bad("R6", load.FuncName(f)+":reslice past len", c.pos(sl.Pos()), "the slice is extended to a bound computed upwards from its own length (or up to its capacity): the uncovered bytes are whatever the backing array holds, not bytes this encoder wrote (padding must be appended)")
				}
			}
		}
	}
	// ---------------- R10 fixed-size fields are read with io.ReadFull ----------------
	// io.Reader.Read may return fewer bytes than asked with a nil error (a buffered reader at its buffer boundary, a
	// pipe at a chunk boundary). A decoder that issues one Read for a fixed-size field and compares the count refuses
	// a valid encoding depending on where its bytes fall (finding F21). In the stream codec packages no decoder calls
	// Read on a reader directly; fixed-size fields go through io.ReadFull, binary.Read or io.ReadAll.
	{
		nFull, nBare := 0, 0
		for _, f := range c.P.RepoFunctions() {
			switch load.RelPkg(f) {
			case "eventlog", "extract/eventlog", "ovmf/abi":
			default:
				continue
			}
			if c.isTestFunc(f) {
				continue
			}
			for _, call := range callsIn(f, func(ssa.CallInstruction) bool { return true }) {
				cc := call.Common()
				if cal := cc.StaticCallee(); cal != nil && (cal.String() == "io.ReadFull" || cal.String() == "io.ReadAtLeast") {
					nFull++
					continue
				}
				isRead := false
				if cc.IsInvoke() && cc.Method.Name() == "Read" && len(cc.Args) == 1 {
					isRead = true
				} else if cal := cc.StaticCallee(); cal != nil && cal.Name() == "Read" && cal.Signature.Recv() != nil && cal.Signature.Params().Len() == 1 && cal.Signature.Params().At(0).Type().String() == "[]byte" {
					isRead = true
				}
				if !isRead || f.Name() == "Read" {
					continue // a type's own Read method may forward to the reader it wraps
				}
				nBare++
				c.S.Bad("R10", load.FuncName(f)+":bare Read", c.pos(call.Pos()), "the decoder reads a field with a single Reader.Read call: a short read, which io.Reader permits with a nil error, makes it refuse (or mis-decode) a valid encoding")
			}
		}
		if nBare == 0 {
			c.S.OK("R10", "stream decoders:no bare Read", "", fmt.Sprintf("no direct Reader.Read in the codec packages; %d io.ReadFull sites", nFull), true)
		}
		c.S.Floor("R10", "io.ReadFull sites in the stream codec packages", 3, nFull)
	}

	// ---------------- R11 a clean end of input is only accepted between records ----------------
	// Where a decoder of the stream codec packages turns io.EOF into success (`if err == io.EOF { return nil }`,
	// errors.Is), the error comes from a primitive read made directly in that function (io.ReadFull, binary.Read,
	// Reader.Read) — the first bytes of the next record — never from a call into a multi-field decoder: binary.Read
	// reports a bare io.EOF whenever the input ends exactly before one of the record's fields, so an EOF taken from a
	// composite decoder accepts a log cut at a field boundary inside a record (finding F22).
	{
		nEOF := 0
		isEOF := func(v ssa.Value) bool {
			ld, ok := v.(*ssa.UnOp)
			if !ok || ld.Op != token.MUL {
				return false
			}
			g, ok := ld.X.(*ssa.Global)
			return ok && g.Pkg != nil && g.Pkg.Pkg.Path() == "io" && g.Name() == "EOF"
		}
		for _, f := range c.P.RepoFunctions() {
			switch load.RelPkg(f) {
			case "eventlog", "extract/eventlog", "ovmf/abi":
			default:
				continue
			}
			if c.isTestFunc(f) {
				continue
			}
			for _, b := range f.Blocks {
				iff, ok := b.Instrs[len(b.Instrs)-1].(*ssa.If)
				if !ok {
					continue
				}
				var errv ssa.Value
				switch x := iff.Cond.(type) {
				case *ssa.BinOp:
					if x.Op == token.EQL && isEOF(x.Y) {
						errv = x.X
					} else if x.Op == token.EQL && isEOF(x.X) {
						errv = x.Y
					}
				case *ssa.Call:
					if cal := x.Call.StaticCallee(); cal != nil && cal.String() == "errors.Is" && len(x.Call.Args) == 2 && isEOF(x.Call.Args[1]) {
						errv = x.Call.Args[0]
					}
				}
				if errv == nil {
					continue
				}
				// does the EOF branch return success?
				tb := b.Succs[0]
				for len(tb.Instrs) == 1 && len(tb.Succs) == 1 {
					tb = tb.Succs[0]
				}
				ret, ok := tb.Instrs[len(tb.Instrs)-1].(*ssa.Return)
				ei := errIndex(f.Signature)
				if !ok || ei < 0 || ei >= len(ret.Results) {
					continue
				}
				if k, isK := ret.Results[ei].(*ssa.Const); !isK || !k.IsNil() {
					continue
				}
				nEOF++
				// where the error comes from
				src := errv
				if ex, ok := src.(*ssa.Extract); ok {
					src = ex.Tuple
				}
				prim := false
				what := flow.Describe(errv)
				if call, ok := src.(*ssa.Call); ok {
					what = callName(call)
					if call.Call.IsInvoke() && call.Call.Method.Name() == "Read" {
						prim = true
					} else if cal := call.Call.StaticCallee(); cal != nil {
						// the standard library's own readers are primitive reads (io.ReadFull, binary.Read, ReadRune, ReadByte …);
						// a function of this repository is a decoder of something larger
						if cal.Pkg != nil && !load.FuncInRepo(cal) {
							switch cal.Pkg.Pkg.Path() {
							case "io", "bytes", "bufio", "strings", "encoding/binary":
								prim = true
							}
						}
					}
				}
				c.S.Check(prim, "R11", load.FuncName(f)+":EOF accepted", c.pos(iff.Cond.Pos()), "the EOF that ends the input comes from a primitive read of the next record's first bytes ("+what+")", "io.EOF from "+what+" is taken as a clean end of input: a decoder of several fields reports a bare io.EOF whenever the input ends exactly before one of them, so an input cut inside a record is accepted and the partial record dropped")
			}
		}
		c.S.Floor("R11", "places where a stream decoder accepts io.EOF as the end of input", 1, nEOF)
	}

	// ---------------- R13 a failed step fails the codec function ----------------
	// In the stream codec packages, a function that returns an error does not return nil on a path on which one of
	// its fallible steps (a call whose last result is an error) failed — except a step whose error the function
	// compares with io.EOF (R11 decides those). A shared helper that loses the error of a nested encoder
	// (`if err := m.Marshal(w); err != nil { err = … }; return err` with a shadowed err) makes every refusal
	// downstream — an over-long string, a digest of the wrong length — a silent success with malformed bytes.
	{
		nFn, nSteps := 0, 0
		isEOFLoad := func(v ssa.Value) bool {
			ld, ok := v.(*ssa.UnOp)
			if !ok || ld.Op != token.MUL {
				return false
			}
			g, ok := ld.X.(*ssa.Global)
			return ok && g.Pkg != nil && g.Pkg.Pkg.Path() == "io" && g.Name() == "EOF"
		}
		eofTested := func(call ssa.CallInstruction) bool {
			v := call.Value()
			if v == nil {
				return false
			}
			var errs []ssa.Value
			if _, isTuple := v.Type().(*types.Tuple); isTuple {
				for _, r := range nonDebugRefs(v) {
					if ex, ok := r.(*ssa.Extract); ok && ex.Index == errIndex(call.Common().Signature()) {
						errs = append(errs, ex)
					}
				}
			} else {
				errs = append(errs, v)
			}
			for _, ev := range errs {
				for _, r := range nonDebugRefs(ev) {
					switch u := r.(type) {
					case *ssa.BinOp:
						if isEOFLoad(u.X) || isEOFLoad(u.Y) {
							return true
						}
					case *ssa.Call:
						if cal := u.Call.StaticCallee(); cal != nil && cal.String() == "errors.Is" {
							return true
						}
					}
				}
			}
			return false
		}
		// errors thrown away on purpose: only of callees that cannot fail on what they are given here. Looked for in the
		// stream codecs and in the layout / firmware-analysis packages (a decoder that gains a second way to fail while a
		// caller still drops its error hands a nil or half-filled record on).
		nDiscard := 0
		for _, f := range c.P.RepoFunctions() {
			switch load.RelPkg(f) {
			case "eventlog", "extract/eventlog", "ovmf/abi", "ovmf", "sev", "tdx":
			default:
				continue
			}
			if c.isTestFunc(f) || f.Blocks == nil {
				continue
			}
			for _, call := range callsIn(f, func(call ssa.CallInstruction) bool {
				if _, isDefer := call.(*ssa.Defer); isDefer {
					return false
				}
				if _, isB := call.Common().Value.(*ssa.Builtin); isB {
					return false
				}
				if errIndex(call.Common().Signature()) < 0 || !errDiscarded(call) {
					return false
				}
				// inside the stream codecs: every discarded error; elsewhere: the discarded errors of decoders of the
				// layout / stream codec packages (functions handed bytes that return a value and an error)
				if rel := load.RelPkg(f); rel == "eventlog" || rel == "extract/eventlog" {
					return true
				}
				cal := call.Common().StaticCallee()
				if cal == nil || (load.RelPkg(cal) != "ovmf/abi" && load.RelPkg(cal) != "eventlog") || cal.Signature.Results().Len() < 2 {
					return false
				}
				for _, p := range cal.Params {
					if p.Type().String() == "[]byte" || p.Type().String() == "io.Reader" {
						return true
					}
				}
				return false
			}) {
				why := ""
				cal := call.Common().StaticCallee()
				args := call.Common().Args
				switch {
				case cal != nil && load.FuncInRepo(cal) && cal.Blocks != nil:
					if pi, k, exact, ok := failsOnLengthAlone(cal); ok && pi < len(args) {
						if w := fixedWidth(args[pi]); w > 0 && ((exact && w == k) || (!exact && w >= k)) {
							why = fmt.Sprintf("%s fails on the length of its argument alone (needs %d bytes) and is given exactly %d", cal.Name(), k, w)
						}
					}
				case cal != nil && cal.String() == "io.ReadAll" && len(args) == 1 && inMemoryReader(args[0]):
					why = "io.ReadAll over an in-memory reader cannot fail"
				case cal != nil && cal.Pkg != nil && (cal.Pkg.Pkg.Path() == "fmt" || cal.Pkg.Pkg.Path() == "bytes" || cal.Pkg.Pkg.Path() == "strings" || cal.Pkg.Pkg.Path() == "hash" || cal.Pkg.Pkg.Path() == "crypto/sha512"):
					why = "writes to an in-memory buffer / hash / formatted output"
				case call.Common().IsInvoke() && (call.Common().Method.Name() == "Write" || call.Common().Method.Name() == "WriteTo") && inMemoryWriter(call.Common().Value):
					why = "writes to an in-memory buffer / hash"
				}
				nDiscard++
				c.S.Check(why != "", "R13", load.FuncName(f)+":discarded error of "+callName(call), c.pos(call.Pos()), "infallible here: "+why, "the error of "+callName(call)+" is thrown away and the callee can fail on this operand: a malformed value is encoded / a short input decoded as if nothing had happened")
			}
		}
		c.S.Floor("R13", "discarded errors examined in the codec and layout packages", 3, nDiscard)
		for _, f := range c.P.RepoFunctions() {
			switch load.RelPkg(f) {
			case "eventlog", "extract/eventlog":
			default:
				continue
			}
			if c.isTestFunc(f) || f.Blocks == nil || errIndex(f.Signature) < 0 {
				continue
			}
			steps := callsIn(f, func(call ssa.CallInstruction) bool {
				if _, isDefer := call.(*ssa.Defer); isDefer {
					return false
				}
				if _, isB := call.Common().Value.(*ssa.Builtin); isB {
					return false
				}
				return errIndex(call.Common().Signature()) >= 0 && !eofTested(call) && !errDiscarded(call)
			})
			if len(steps) == 0 {
				continue
			}
			nFn++
			isStep := map[ssa.Instruction]bool{}
			for _, st := range steps {
				isStep[st.(ssa.Instruction)] = true
			}
			const bFailed uint = 0
			r := &esp.Rule{Name: "C18.R13"}
			r.Relevant = func(*ssa.Function) bool { return false }
			r.Match = func(in ssa.Instruction) []esp.Ev {
				if !isStep[in] {
					return nil
				}
				nSteps++
				call := in.(ssa.CallInstruction)
				return []esp.Ev{{ID: 0, Name: callName(call), ErrIdx: errIndex(call.Common().Signature()), BoolIdx: -1}}
			}
			r.Step = func(x *esp.Ctx, s esp.State, ev esp.Ev, ph esp.Phase) (esp.State, string) {
				if ph == esp.Fail {
					return s.Set(bFailed), ""
				}
				return s, ""
			}
			ei := errIndex(f.Signature)
			r.AtReturn = func(x *esp.Ctx, s esp.State, rets []esp.Abs) string {
				if rets[ei] != esp.NonZero && s.Has(bFailed) {
					return "R13: the function may return a nil error although one of its fallible steps failed: the refusal of a nested encoder / decoder is lost and malformed bytes (or a partial value) are reported as success"
				}
				return ""
			}
			e := c.engine(r)
			e.Run(f, esp.State{})
			name := load.FuncName(f)
			if c.reportEngine(e, "R13", func(v *esp.Violation) string { return name + ":failed step reported" }) == 0 {
				c.S.OK("R13", name+":failed step reported", c.pos(f.Pos()), fmt.Sprintf("no nil return after a failed step (%d steps)", len(steps)), false)
			}
		}
		c.S.Floor("R13", "fallible codec functions in eventlog / extract/eventlog", 15, nFn)
		_ = nSteps
	}

	// ---------------- R12 whole-input decoders look at every input byte ----------------
	// A decoder that takes "the whole of the input slice" (a function of the stream codec packages named …FromBytes
	// that wraps its []byte parameter in a bytes.Buffer / bytes.Reader) returns success only after the reader was
	// drained: every nil-error return is dominated by io.ReadAll on that reader, or by the edge "reader.Len() == 0".
	// A trailer check that looks at a fixed number of bytes (Next(7)) accepts `record ‖ zeros ‖ anything`, which does
	// not re-encode to itself.
	{
		nWhole := 0
		for _, f := range c.P.RepoFunctions() {
			switch load.RelPkg(f) {
			case "eventlog", "extract/eventlog":
			default:
				continue
			}
			if c.isTestFunc(f) || !strings.HasSuffix(f.Name(), "FromBytes") || errIndex(f.Signature) < 0 {
				continue
			}
			// the reader built over a []byte parameter
			var rd ssa.Value
			for _, call := range callsIn(f, func(call ssa.CallInstruction) bool {
				cal := call.Common().StaticCallee()
				return cal != nil && (cal.String() == "bytes.NewBuffer" || cal.String() == "bytes.NewReader") && len(call.Common().Args) == 1
			}) {
				a := call.Common().Args[0]
				for i := 0; i < 4; i++ {
					if sl, ok := a.(*ssa.Slice); ok {
						a = sl.X
					}
				}
				if _, isParam := a.(*ssa.Parameter); isParam {
					rd = call.Value()
				}
			}
			if rd == nil {
				continue
			}
			nWhole++
			isRd := func(v ssa.Value) bool {
				for i := 0; i < 4; i++ {
					switch x := v.(type) {
					case *ssa.MakeInterface:
						v = x.X
					case *ssa.ChangeInterface:
						v = x.X
					}
				}
				return v == rd
			}
			drained := map[*ssa.BasicBlock]bool{}
			for _, b := range f.Blocks {
				for _, in := range b.Instrs {
					if call, ok := in.(*ssa.Call); ok {
						if cal := call.Call.StaticCallee(); cal != nil && cal.String() == "io.ReadAll" && isRd(call.Call.Args[0]) {
							drained[b] = true
						}
					}
				}
			}
			ei := errIndex(f.Signature)
			bad := 0
			for _, b := range f.Blocks {
				ret, ok := b.Instrs[len(b.Instrs)-1].(*ssa.Return)
				if !ok {
					continue
				}
				if k, isK := ret.Results[ei].(*ssa.Const); !isK || !k.IsNil() {
					continue
				}
				okDrain := false
				for d := b; d != nil; d = d.Idom() {
					if drained[d] {
						okDrain = true
					}
				}
				for _, cf := range dominatingConds(b) {
					bo, ok := cf.Cond.(*ssa.BinOp)
					if !ok || (bo.Op != token.EQL && bo.Op != token.NEQ) || !isZeroInt(bo.Y) {
						continue
					}
					if call, ok := bo.X.(*ssa.Call); ok {
						if cal := call.Call.StaticCallee(); cal != nil && cal.Name() == "Len" && len(call.Call.Args) == 1 && call.Call.Args[0] == rd && (bo.Op == token.EQL) == cf.Val {
							okDrain = true
						}
					}
				}
				if !okDrain {
					bad++
					c.S.Bad("R12", load.FuncName(f)+":input consumed", c.pos(ret.Pos()), "the decoder of the whole input may return success without having drained its reader (no io.ReadAll, no Len() == 0 edge on this path): bytes behind what it looked at are silently ignored, so an accepted input does not re-encode to itself")
				}
			}
			if bad == 0 {
				c.S.OK("R12", load.FuncName(f)+":input consumed", c.pos(f.Pos()), "every successful return follows io.ReadAll / Len() == 0 on the input reader", true)
			}
		}
		c.S.Floor("R12", "whole-input stream decoders (…FromBytes over a reader)", 1, nWhole)
	}

	// ---------------- R9 encoders do not write the value they encode ----------------
	// A method of the codec packages that encodes its receiver (Marshal*, Put*, WriteTo, Bytes) performs no store,
	// element assignment or copy whose destination is reached from the receiver: encoding a value twice gives the
	// same bytes (an in-place byte swap through a slice that aliases a receiver field would corrupt the second
	// encoding).
	nEnc := 0
	for _, f := range c.P.RepoFunctions() {
		switch load.RelPkg(f) {
		case "eventlog", "ovmf/abi", "sev":
		default:
			continue
		}
		if c.isTestFunc(f) || f.Signature.Recv() == nil || len(f.Params) == 0 {
			continue
		}
		n := f.Name()
		if !(strings.HasPrefix(n, "Marshal") || strings.HasPrefix(n, "Put") || n == "WriteTo" || n == "Bytes") {
			continue
		}
		nEnc++
		recv := f.Params[0]
		clo := c.reachable([]*ssa.Function{f}, func(g *ssa.Function) bool { return load.FuncInRepo(g) })
		delete(clo, nil)
		eff := &flow.Effects{P: c.P, Funcs: clo, Roots: map[*ssa.Function]bool{f: true}}
		badW := 0
		for _, w := range eff.Writes() {
			for _, rt := range w.Shared() {
				if rt.V == ssa.Value(recv) {
					badW++
					c.S.Bad("R9", load.FuncName(f)+":writes its receiver", c.pos(w.Instr.Pos()), "the encoder writes "+w.What+" of the value it encodes: a second encoding of the same value produces different bytes")
				}
			}
		}
		if badW == 0 {
			c.S.OK("R9", load.FuncName(f)+":receiver untouched", c.pos(f.Pos()), "no write reaches the receiver", false)
		}
	}
	c.S.Floor("R9", "encoder methods in the codec packages", 8, nEnc)

	// ---------------- R8 decoders assign their destination on every successful path ----------------
	// A decoding helper of the codec packages that returns its result through a pointer-to-slice parameter stores
	// through it before every nil-error return: an accepted encoding never leaves the destination's previous
	// contents in place (what is decoded depends on the bytes alone).
	nOut := 0
	for _, f := range c.P.RepoFunctions() {
		switch load.RelPkg(f) {
		case "eventlog", "ovmf/abi":
		default:
			continue
		}
		if c.isTestFunc(f) || errIndex(f.Signature) < 0 {
			continue
		}
		for pi, p := range f.Params {
			if f.Signature.Recv() != nil && pi == 0 {
				continue
			}
			pt, ok := p.Type().(*types.Pointer)
			if !ok {
				continue
			}
			if _, isSl := pt.Elem().Underlying().(*types.Slice); !isSl {
				continue
			}
			hasStore := false
			for _, ref := range *p.Referrers() {
				if st, ok := ref.(*ssa.Store); ok && st.Addr == ssa.Value(p) {
					hasStore = true
				}
			}
			if !hasStore {
				continue
			}
			nOut++
			const bSet uint = 0
			pp := p
			r := &esp.Rule{Name: "C18.R8"}
			r.Relevant = func(*ssa.Function) bool { return false }
			r.Match = func(in ssa.Instruction) []esp.Ev {
				if st, ok := in.(*ssa.Store); ok && st.Addr == ssa.Value(pp) {
					return []esp.Ev{{ID: 0, Name: "destination assigned", ErrIdx: -1, BoolIdx: -1}}
				}
				return nil
			}
			r.Step = func(x *esp.Ctx, s esp.State, ev esp.Ev, ph esp.Phase) (esp.State, string) {
				if ph == esp.AtCall {
					return s.Set(bSet), ""
				}
				return s, ""
			}
			ei := errIndex(f.Signature)
			r.AtReturn = func(x *esp.Ctx, s esp.State, rets []esp.Abs) string {
				if rets[ei] != esp.NonZero && !s.Has(bSet) {
					return "R8: the decoder may return success without assigning its destination: the caller keeps whatever the destination held before (a value decoded earlier)"
				}
				return ""
			}
			e := c.engine(r)
			e.Run(f, esp.State{})
			if c.reportEngine(e, "R8", func(v *esp.Violation) string { return load.FuncName(f) + ":" + pp.Name() + " assigned" }) == 0 {
				c.S.OK("R8", load.FuncName(f)+":"+pp.Name()+" assigned", c.pos(f.Pos()), "every successful return follows a store through the out-parameter", true)
			}
		}
	}
	// The same for a decoder that is a method and assigns fields of its receiver: a field it assigns on some path is
	// assigned before every successful return (all or nothing — a zero-length payload leaves no earlier value behind).
	nRecv := 0
	for _, f := range c.P.RepoFunctions() {
		switch load.RelPkg(f) {
		case "eventlog", "ovmf/abi":
		default:
			continue
		}
		if c.isTestFunc(f) || errIndex(f.Signature) < 0 || f.Signature.Recv() == nil || len(f.Params) < 2 || f.Blocks == nil {
			continue
		}
		if _, isPtr := f.Params[0].Type().(*types.Pointer); !isPtr {
			continue
		}
		reads := false
		for _, p := range f.Params[1:] {
			if p.Type().String() == "io.Reader" || p.Type().String() == "[]byte" {
				reads = true
			}
		}
		if !reads {
			continue
		}
		recv := f.Params[0]
		fieldIdx := map[int]int{}
		var names []string
		storeField := func(in ssa.Instruction) (int, bool) {
			st, ok := in.(*ssa.Store)
			if !ok {
				return 0, false
			}
			fa, ok := st.Addr.(*ssa.FieldAddr)
			if !ok || fa.X != ssa.Value(recv) {
				return 0, false
			}
			switch fa.Type().(*types.Pointer).Elem().Underlying().(type) {
			case *types.Slice:
			case *types.Basic:
				if fa.Type().(*types.Pointer).Elem().Underlying().(*types.Basic).Kind() != types.String {
					return 0, false
				}
			default:
				return 0, false
			}
			// an accumulator (x.F = append(x.F, …)) extends what is there by design; it is no "destination"
			if call, ok := st.Val.(*ssa.Call); ok {
				if bi, ok := call.Call.Value.(*ssa.Builtin); ok && bi.Name() == "append" && len(call.Call.Args) > 0 {
					if ld, ok := call.Call.Args[0].(*ssa.UnOp); ok {
						if fa2, ok := ld.X.(*ssa.FieldAddr); ok && fa2.X == fa.X && fa2.Field == fa.Field {
							return 0, false
						}
					}
				}
			}
			return fa.Field, true
		}
		for _, b := range f.Blocks {
			for _, in := range b.Instrs {
				if fi, ok := storeField(in); ok {
					if _, seen := fieldIdx[fi]; !seen {
						fieldIdx[fi] = len(names)
						names = append(names, flow.FieldName(in.(*ssa.Store).Addr.(*ssa.FieldAddr)))
					}
				}
			}
		}
		if len(names) == 0 || len(names) > 16 {
			continue
		}
		nRecv++
		r := &esp.Rule{Name: "C18.R8"}
		r.Relevant = func(*ssa.Function) bool { return false }
		r.Match = func(in ssa.Instruction) []esp.Ev {
			if fi, ok := storeField(in); ok {
				return []esp.Ev{{ID: fieldIdx[fi], Name: "field assigned", ErrIdx: -1, BoolIdx: -1}}
			}
			return nil
		}
		r.Step = func(x *esp.Ctx, s esp.State, ev esp.Ev, ph esp.Phase) (esp.State, string) {
			if ph == esp.AtCall {
				return s.Set(uint(ev.ID)), ""
			}
			return s, ""
		}
		ei := errIndex(f.Signature)
		nm := names
		r.AtReturn = func(x *esp.Ctx, s esp.State, rets []esp.Abs) string {
			if rets[ei] == esp.NonZero {
				return ""
			}
			for i, n := range nm {
				if !s.Has(uint(i)) {
					return "R8: the decoder may return success without assigning its field " + n + ", which it assigns on other successful paths: the object keeps whatever the field held before (a value decoded earlier)"
				}
			}
			return ""
		}
		e := c.engine(r)
		e.Run(f, esp.State{})
		if c.reportEngine(e, "R8", func(v *esp.Violation) string { return load.FuncName(f) + ":receiver fields assigned" }) == 0 {
			c.S.OK("R8", load.FuncName(f)+":receiver fields assigned", c.pos(f.Pos()), fmt.Sprintf("every successful return follows the stores to %v", names), true)
		}
	}
	c.S.Floor("R8", "decoders that deliver through an out-parameter or through slice/string fields of their receiver", 3, nOut+nRecv)

	// ---------------- R7 no silent truncation in stream encoders ----------------
	// a stream encoder (a function of the codec packages that takes an io.Writer) that re-slices a value field to
	// x[:k] before writing it drops the bytes beyond k; that is a refusal case unless len(x) == k was established.
	nTr := 0
	for _, f := range c.P.RepoFunctions() {
		switch load.RelPkg(f) {
		case "eventlog", "ovmf/abi":
		default:
			continue
		}
		if c.isTestFunc(f) || !hasWriterParam(f) {
			continue
		}
		for _, b := range f.Blocks {
			for _, in := range b.Instrs {
				sx, ok := in.(*ssa.Slice)
				if !ok || sx.High == nil {
					continue
				}
				if _, isSlice := sx.X.Type().Underlying().(*types.Slice); !isSlice {
					continue
				}
				if _, isK := sx.High.(*ssa.Const); isK {
					continue // constant widths are the fixed-layout rules' business (R1/R3)
				}
				if a, ok := lenArg(sx.High); ok && sameBytes(a, sx.X) {
					continue
				}
				// the sliced value is data being encoded (a field of the receiver / a parameter), not a scratch buffer
				fromField := false
				if u, ok := sx.X.(*ssa.UnOp); ok {
					_, fromField = u.X.(*ssa.FieldAddr)
				}
				if !fromField {
					continue
				}
				nTr++
				eq := false
				for _, cf := range dominatingConds(b) {
					bo, ok := cf.Cond.(*ssa.BinOp)
					if !ok {
						continue
					}
					if !((bo.Op == token.EQL && cf.Val) || (bo.Op == token.NEQ && !cf.Val)) {
						continue
					}
					for _, pr := range [][2]ssa.Value{{bo.X, bo.Y}, {bo.Y, bo.X}} {
						if a, ok := lenArg(stripConv(pr[0])); ok && sameBytes(a, sx.X) && sameValueModConv(pr[1], sx.High) {
							eq = true
						}
					}
				}
				c.S.Check(eq, "R7", load.FuncName(f)+":truncating write", c.pos(sx.Pos()),
					"the field is cut to a length it was checked to have exactly",
					"the encoder writes only a prefix x[:k] of a field without having established len(x) == k: an over-long value is silently truncated instead of refused, and decoding the output gives a different value")
			}
		}
	}
	c.S.OK("R7", "stream encoders:no silent truncation", "", fmt.Sprintf("%d prefix re-slices of encoded fields in stream encoders examined", nTr), false)
	c.S.Count("bounded_slices_examined", nSl)
	c.S.OK("R6", "codec packages:no reslice past len", "", fmt.Sprintf("%d slice expressions with an upper bound examined; none extends a slice beyond its length", nSl), false)
}

// hasWriterParam: some parameter's type has a Write([]byte) (int, error) method (io.Writer, *bytes.Buffer, …).
func hasWriterParam(f *ssa.Function) bool {
	for _, p := range f.Params {
		if hasMethodNamed(p.Type(), "Write") {
			return true
		}
	}
	return false
}

func hasMethodNamed(t types.Type, name string) bool {
	ms := types.NewMethodSet(t)
	for i := 0; i < ms.Len(); i++ {
		if ms.At(i).Obj().Name() == name {
			return true
		}
	}
	if _, isPtr := t.(*types.Pointer); !isPtr {
		if _, isIface := t.Underlying().(*types.Interface); !isIface {
			ms = types.NewMethodSet(types.NewPointer(t))
			for i := 0; i < ms.Len(); i++ {
				if ms.At(i).Obj().Name() == name {
					return true
				}
			}
		}
	}
	return false
}

// sameValueModConv: a and b are the same SSA value up to integer conversions.
func sameValueModConv(a, b ssa.Value) bool {
	return stripConv(a) == stripConv(b)
}

func maxInt64(a, b int64) int64 {
	if a > b {
		return a
	}
	return b
}

func paramIndex(t *layout.Table) (int, bool) {
	sig := t.Fn.Type().(*types.Signature)
	for i := 0; i < sig.Params().Len(); i++ {
		if sig.Params().At(i).Name() == t.Base.Name() && t.ArrLen < 0 {
			return i, true
		}
	}
	return -1, false
}

func isMethodOfUnexported(f *types.Func) bool {
	sig := f.Type().(*types.Signature)
	if sig.Recv() == nil {
		return false
	}
	t := sig.Recv().Type()
	if p, ok := t.(*types.Pointer); ok {
		t = p.Elem()
	}
	if n, ok := t.(*types.Named); ok {
		return !n.Obj().Exported()
	}
	return false
}

// assocType: the struct type a codec function encodes (writer: receiver or
// pointer/struct parameter; reader: result or receiver).
func assocType(t *layout.Table, write bool) string {
	sig := t.Fn.Type().(*types.Signature)
	named := func(ty types.Type) string {
		if p, ok := ty.(*types.Pointer); ok {
			ty = p.Elem()
		}
		if n, ok := ty.(*types.Named); ok {
			if _, isStruct := n.Underlying().(*types.Struct); isStruct || n.Obj().Name() == "UUID" {
				return n.Obj().Pkg().Name() + "." + n.Obj().Name()
			}
			if _, isArr := n.Underlying().(*types.Array); isArr {
				return n.Obj().Pkg().Name() + "." + n.Obj().Name()
			}
		}
		return ""
	}
	if sig.Recv() != nil {
		if s := named(sig.Recv().Type()); s != "" {
			return s
		}
	}
	if write {
		for i := 0; i < sig.Params().Len(); i++ {
			if s := named(sig.Params().At(i).Type()); s != "" {
				return s
			}
		}
		return ""
	}
	for i := 0; i < sig.Results().Len(); i++ {
		if s := named(sig.Results().At(i).Type()); s != "" {
			return s
		}
	}
	return ""
}

func rangeFields(t *layout.Table) map[string]string {
	out := map[string]string{}
	for _, r := range t.Ranges {
		out[fmt.Sprintf("[%#x,%#x)", r.Lo, r.Hi)] = r.Field
	}
	return out
}

func sameField(a, b string) bool {
	norm := func(s string) string {
		s = strings.TrimPrefix(s, "?")
		return strings.ToLower(strings.ReplaceAll(s, "_", ""))
	}
	if a == "" || b == "" || strings.HasPrefix(a, "?") || strings.HasPrefix(b, "?") {
		return true // field could not be named on one side: range agreement only
	}
	return norm(a) == norm(b)
}

func basicBits(b *types.Basic) int {
	switch b.Kind() {
	case types.Int8, types.Uint8:
		return 8
	case types.Int16, types.Uint16:
		return 16
	case types.Int32, types.Uint32:
		return 32
	case types.Int64, types.Uint64:
		return 64
	case types.Int, types.Uint, types.Uintptr:
		return 64
	}
	return 64
}

func exprString(e ast.Expr) string { return types.ExprString(e) }

// hasRangeCheck: an if statement earlier in the function compares src with a
// constant bound not larger than 1<<bits (>=, >) and its body returns.
func hasRangeCheck(info *types.Info, fd *ast.FuncDecl, at ast.Node, src ast.Expr, bits int) bool {
	want := exprString(src)
	found := false
	ast.Inspect(fd.Body, func(n ast.Node) bool {
		is, ok := n.(*ast.IfStmt)
		if !ok || is.Pos() >= at.Pos() {
			return true
		}
		be, ok := ast.Unparen(is.Cond).(*ast.BinaryExpr)
		if !ok || (be.Op != token.GEQ && be.Op != token.GTR) {
			return true
		}
		if exprString(be.X) != want {
			return true
		}
		tv := info.Types[be.Y]
		if tv.Value == nil {
			return true
		}
		k, _ := constant.Int64Val(constant.ToInt(tv.Value))
		limit := int64(1) << uint(bits)
		if (be.Op == token.GEQ && k <= limit) || (be.Op == token.GTR && k < limit) {
			// body returns
			if len(is.Body.List) > 0 {
				if _, ok := is.Body.List[len(is.Body.List)-1].(*ast.ReturnStmt); ok {
					found = true
				}
			}
		}
		return true
	})
	return found
}

// rangeCheckSlack: how many in-range values the refusing threshold of the narrowing's range check turns away
// (0 = the check refuses exactly what does not fit), and whether the threshold is a constant declared in this
// repository (a format limit chosen on purpose). ok=false if no constant threshold was found.
func rangeCheckSlack(info *types.Info, fd *ast.FuncDecl, at ast.Node, src ast.Expr, bits int) (slack int64, repoConst, ok bool) {
	want := exprString(src)
	ast.Inspect(fd.Body, func(n ast.Node) bool {
		is, isIf := n.(*ast.IfStmt)
		if !isIf || is.Pos() >= at.Pos() {
			return true
		}
		be, isBin := ast.Unparen(is.Cond).(*ast.BinaryExpr)
		if !isBin || (be.Op != token.GEQ && be.Op != token.GTR) || exprString(be.X) != want {
			return true
		}
		tv := info.Types[be.Y]
		if tv.Value == nil {
			return true
		}
		k, _ := constant.Int64Val(constant.ToInt(tv.Value))
		limit := int64(1) << uint(bits)
		first := k // first refused value
		if be.Op == token.GTR {
			first = k + 1
		}
		if first > limit {
			return true
		}
		slack, ok = limit-first, true
		repoConst = false
		ast.Inspect(be.Y, func(m ast.Node) bool {
			if id, isId := m.(*ast.Ident); isId {
				if obj, isC := info.Uses[id].(*types.Const); isC && obj.Pkg() != nil && strings.HasPrefix(obj.Pkg().Path(), "github.com/google/gce-tcb-verifier") {
					repoConst = true
				}
			}
			return true
		})
		return true
	})
	return slack, repoConst, ok
}

func recvTypeName(fd *ast.FuncDecl) string {
	if fd.Recv == nil || len(fd.Recv.List) == 0 {
		return ""
	}
	t := fd.Recv.List[0].Type
	for {
		switch x := t.(type) {
		case *ast.StarExpr:
			t = x.X
			continue
		case *ast.IndexExpr:
			t = x.X
			continue
		case *ast.Ident:
			return x.Name
		}
		return ""
	}
}

// fieldSequence: the receiver fields referenced (as arguments of calls, or as
// receivers of Read/Write on them) in source order, without repeats in a row.
func fieldSequence(fd *ast.FuncDecl, info *types.Info) []string {
	recv := ""
	if len(fd.Recv.List[0].Names) > 0 {
		recv = fd.Recv.List[0].Names[0].Name
	}
	var out []string
	add := func(s string) {
		if len(out) == 0 || out[len(out)-1] != s {
			out = append(out, s)
		}
	}
	// a call takes part in the encoding only if it involves a stream: an argument or the receiver of the call has
	// a Read or Write method (io.Reader / io.Writer / *bytes.Buffer …). Error messages and length tests that merely
	// mention a field do not.
	isStream := func(x ast.Expr) bool {
		tv, ok := info.Types[x]
		if !ok || tv.Type == nil {
			return false
		}
		if b, isBasic := tv.Type.Underlying().(*types.Basic); isBasic && b.Kind() != types.Invalid {
			return false
		}
		return hasMethodNamed(tv.Type, "Write") || hasMethodNamed(tv.Type, "Read")
	}
	involvesStream := func(call *ast.CallExpr) bool {
		for _, a := range call.Args {
			if isStream(a) {
				return true
			}
			if u, ok := a.(*ast.UnaryExpr); ok && u.Op == token.AND && isStream(u.X) {
				return true
			}
		}
		if sel, ok := call.Fun.(*ast.SelectorExpr); ok && isStream(sel.X) {
			return true
		}
		return false
	}
	ast.Inspect(fd.Body, func(n ast.Node) bool {
		if rs, ok := n.(*ast.RangeStmt); ok {
			if sel, ok := rs.X.(*ast.SelectorExpr); ok {
				if id, ok := sel.X.(*ast.Ident); ok && id.Name == recv && recv != "" {
					add(sel.Sel.Name)
				}
			}
			return true
		}
		if as, ok := n.(*ast.AssignStmt); ok {
			// recv.F = f(…) / append(recv.F, decoded): the decoder fills the field here
			hasCall := false
			for _, r := range as.Rhs {
				if _, isCall := ast.Unparen(r).(*ast.CallExpr); isCall {
					hasCall = true
				}
			}
			if hasCall {
				for _, l := range as.Lhs {
					if sel, ok := ast.Unparen(l).(*ast.SelectorExpr); ok {
						if id, ok := sel.X.(*ast.Ident); ok && id.Name == recv && recv != "" {
							add(sel.Sel.Name)
						}
					}
				}
			}
			return true
		}
		call, ok := n.(*ast.CallExpr)
		if !ok {
			return true
		}
		if !involvesStream(call) {
			return true
		}
		// x.F.Marshal(w): the field is the receiver of the call
		if sel, ok := call.Fun.(*ast.SelectorExpr); ok {
			if inner, ok := ast.Unparen(sel.X).(*ast.SelectorExpr); ok {
				if id, ok := inner.X.(*ast.Ident); ok && id.Name == recv && recv != "" {
					add(inner.Sel.Name)
				}
			}
		}
		for _, a := range call.Args {
			ast.Inspect(a, func(m ast.Node) bool {
				if sel, ok := m.(*ast.SelectorExpr); ok {
					if id, ok := sel.X.(*ast.Ident); ok && id.Name == recv && recv != "" {
						add(sel.Sel.Name)
						return false
					}
				}
				return true
			})
		}
		return true
	})
	return out
}

// callSitesWideEnough: every call of the unexported codec function passes, for
// parameter pi, a slice with constant bounds at least `need` wide (or a whole
// array at least that long).
func callSitesWideEnough(c *Ctx, ex *layout.Extractor, pkgs []*packages.Package, f *types.Func, pi int, need int64) (bool, string) {
	n := 0
	for _, p := range pkgs {
		info := p.TypesInfo
		okAll := true
		for _, file := range p.Syntax {
			ast.Inspect(file, func(nd ast.Node) bool {
				call, ok := nd.(*ast.CallExpr)
				if !ok {
					return true
				}
				var callee *types.Func
				switch fn := call.Fun.(type) {
				case *ast.Ident:
					callee, _ = info.Uses[fn].(*types.Func)
				case *ast.SelectorExpr:
					callee, _ = info.Uses[fn.Sel].(*types.Func)
				}
				if callee != f || pi >= len(call.Args) {
					return true
				}
				n++
				arg := call.Args[pi]
				// a local defined once by a slice expression (entry := table[pos : pos+K]) stands for that expression
				if id, isId := ast.Unparen(arg).(*ast.Ident); isId {
					if obj := info.Uses[id]; obj != nil {
						defs, assigns := 0, 0
						var rhs ast.Expr
						ast.Inspect(file, func(m ast.Node) bool {
							as, ok := m.(*ast.AssignStmt)
							if !ok {
								return true
							}
							for i, l := range as.Lhs {
								lid, ok := l.(*ast.Ident)
								if !ok {
									continue
								}
								if info.Defs[lid] == obj && len(as.Rhs) == len(as.Lhs) {
									defs++
									rhs = as.Rhs[i]
								} else if info.Uses[lid] == obj {
									assigns++
								}
							}
							return true
						})
						if defs == 1 && assigns == 0 && rhs != nil {
							arg = rhs
						}
					}
				}
				w := constSliceWidth(info, arg)
				if w < need {
					okAll = false
				}
				return true
			})
		}
		if !okAll {
			return false, ""
		}
	}
	if n == 0 {
		return false, ""
	}
	return true, fmt.Sprintf("all %d call sites pass a constant-width slice of at least %d bytes", n, need)
}

func constSliceWidth(info *types.Info, e ast.Expr) int64 {
	se, ok := ast.Unparen(e).(*ast.SliceExpr)
	if !ok {
		return -1
	}
	var arrLen int64 = -1
	if t := info.Types[se.X].Type; t != nil {
		if a, ok := t.Underlying().(*types.Array); ok {
			arrLen = a.Len()
		}
		if p, ok := t.Underlying().(*types.Pointer); ok {
			if a, ok := p.Elem().Underlying().(*types.Array); ok {
				arrLen = a.Len()
			}
		}
	}
	lo := int64(0)
	if se.Low != nil {
		tv := info.Types[se.Low]
		if tv.Value == nil {
			// x[a : a+K]
			if se.High != nil {
				if be, ok := se.High.(*ast.BinaryExpr); ok && be.Op == token.ADD && types.ExprString(be.X) == types.ExprString(se.Low) {
					if kv := info.Types[be.Y]; kv.Value != nil {
						k, _ := constant.Int64Val(constant.ToInt(kv.Value))
						return k
					}
				}
			}
			return -1
		}
		lo, _ = constant.Int64Val(constant.ToInt(tv.Value))
	}
	if se.High == nil {
		if arrLen >= 0 {
			return arrLen - lo
		}
		return -1
	}
	tv := info.Types[se.High]
	if tv.Value == nil {
		return -1
	}
	hi, _ := constant.Int64Val(constant.ToInt(tv.Value))
	return hi - lo
}

var _ = load.RootModule

// variadicBinaryWriter: id names a function of package p whose last parameter is variadic and whose body ranges over
// that parameter handing each element as the value of encoding/binary.Write, and calls binary.Write nowhere else.
// It returns the number of fixed parameters.
func variadicBinaryWriter(p *packages.Package, id *ast.Ident) (int, bool) {
	fn, ok := p.TypesInfo.Uses[id].(*types.Func)
	if !ok || fn.Pkg() != p.Types {
		return 0, false
	}
	sig := fn.Type().(*types.Signature)
	if !sig.Variadic() || sig.Recv() != nil {
		return 0, false
	}
	var decl *ast.FuncDecl
	for _, file := range p.Syntax {
		for _, d := range file.Decls {
			if fd, ok := d.(*ast.FuncDecl); ok && p.TypesInfo.Defs[fd.Name] == types.Object(fn) {
				decl = fd
			}
		}
	}
	if decl == nil || decl.Body == nil {
		return 0, false
	}
	vparam := sig.Params().At(sig.Params().Len() - 1)
	isBinaryWrite := func(call *ast.CallExpr) bool {
		sel, ok := call.Fun.(*ast.SelectorExpr)
		if !ok || sel.Sel.Name != "Write" || len(call.Args) != 3 {
			return false
		}
		obj, ok := p.TypesInfo.Uses[sel.Sel].(*types.Func)
		return ok && obj.Pkg() != nil && obj.Pkg().Path() == "encoding/binary"
	}
	inLoop, total := 0, 0
	ast.Inspect(decl.Body, func(n ast.Node) bool {
		if call, ok := n.(*ast.CallExpr); ok && isBinaryWrite(call) {
			total++
		}
		rs, ok := n.(*ast.RangeStmt)
		if !ok {
			return true
		}
		x, ok := ast.Unparen(rs.X).(*ast.Ident)
		if !ok || p.TypesInfo.Uses[x] != types.Object(vparam) || rs.Value == nil {
			return true
		}
		val, ok := rs.Value.(*ast.Ident)
		if !ok {
			return true
		}
		ast.Inspect(rs.Body, func(m ast.Node) bool {
			if call, ok := m.(*ast.CallExpr); ok && isBinaryWrite(call) {
				if a, ok := ast.Unparen(call.Args[2]).(*ast.Ident); ok && p.TypesInfo.Uses[a] == p.TypesInfo.Defs[val] {
					inLoop++
				}
			}
			return true
		})
		return true
	})
	return sig.Params().Len() - 1, inLoop == 1 && total == 1
}

// hasAffineRangeCheck: src is k1 + k2 + … + x with constant k's and one variable term x, and an earlier
// `if x > K { return … }` (or >=) bounds x so that the sum stays below 2^bits.
func hasAffineRangeCheck(info *types.Info, fd *ast.FuncDecl, at ast.Node, src ast.Expr, bits int) bool {
	var ksum int64
	var vars []ast.Expr
	var split func(e ast.Expr) bool
	split = func(e ast.Expr) bool {
		e = ast.Unparen(e)
		if tv := info.Types[e]; tv.Value != nil {
			k, ok := constant.Int64Val(constant.ToInt(tv.Value))
			if !ok {
				return false
			}
			ksum += k
			return true
		}
		if be, ok := e.(*ast.BinaryExpr); ok && be.Op == token.ADD {
			return split(be.X) && split(be.Y)
		}
		vars = append(vars, e)
		return true
	}
	if !split(src) || len(vars) != 1 {
		return false
	}
	want := exprString(vars[0])
	limit := int64(1) << uint(bits)
	found := false
	ast.Inspect(fd.Body, func(n ast.Node) bool {
		is, ok := n.(*ast.IfStmt)
		if !ok || is.Pos() >= at.Pos() {
			return true
		}
		be, ok := ast.Unparen(is.Cond).(*ast.BinaryExpr)
		if !ok || (be.Op != token.GEQ && be.Op != token.GTR) || exprString(be.X) != want {
			return true
		}
		tv := info.Types[be.Y]
		if tv.Value == nil {
			return true
		}
		k, _ := constant.Int64Val(constant.ToInt(tv.Value))
		maxAllowed := k // x > k refused: x <= k
		if be.Op == token.GEQ {
			maxAllowed = k - 1
		}
		if ksum+maxAllowed < limit && len(is.Body.List) > 0 {
			if _, ok := is.Body.List[len(is.Body.List)-1].(*ast.ReturnStmt); ok {
				found = true
			}
		}
		return true
	})
	return found
}

func isZeroInt(v ssa.Value) bool {
	k, ok := v.(*ssa.Const)
	return ok && isZeroIntConst(k)
}

// errDiscarded: the error result of the call has no use at all (`x, _ := f()`, or a bare call statement).
func errDiscarded(call ssa.CallInstruction) bool {
	v := call.Value()
	if v == nil {
		return true
	}
	ei := errIndex(call.Common().Signature())
	if _, isTuple := v.Type().(*types.Tuple); isTuple {
		for _, r := range nonDebugRefs(v) {
			if ex, ok := r.(*ssa.Extract); ok && ex.Index == ei && len(nonDebugRefs(ex)) > 0 {
				return false
			}
		}
		return true
	}
	return len(nonDebugRefs(v)) == 0
}

// fixedWidth: the constant length of a slice expression over an array or with constant bounds (x[:16], arr[:]); 0 if unknown.
func fixedWidth(v ssa.Value) int64 {
	sl, ok := v.(*ssa.Slice)
	if !ok {
		return 0
	}
	lo := int64(0)
	if sl.Low != nil {
		k, ok := constInt(sl.Low)
		if !ok {
			return 0
		}
		lo = k
	}
	if sl.High != nil {
		k, ok := constInt(sl.High)
		if !ok {
			return 0
		}
		return k - lo
	}
	if pt, ok := sl.X.Type().Underlying().(*types.Pointer); ok {
		if at, ok := pt.Elem().Underlying().(*types.Array); ok {
			return at.Len() - lo
		}
	}
	return 0
}

// inMemoryReader: the value is (an interface over) a *bytes.Buffer / *bytes.Reader / *strings.Reader.
func inMemoryReader(v ssa.Value) bool {
	for i := 0; i < 3; i++ {
		switch x := v.(type) {
		case *ssa.MakeInterface:
			v = x.X
		case *ssa.ChangeInterface:
			v = x.X
		}
	}
	switch v.Type().String() {
	case "*bytes.Buffer", "*bytes.Reader", "*strings.Reader":
		return true
	}
	return false
}

// c18SizedNotSearched is R14: a field that travels with its size is cut out by that size. The encoders write field
// contents verbatim, so a decoder that delimits a value by searching its content (Index*/LastIndex*/Cut/Split/Trim*/
// Fields of bytes and strings) drops or keeps bytes the encoder wrote: decode(encode(x)) ≠ x for every x containing the
// delimiter. In the stream codec packages no decoding function (one that reads from an io.Reader or a byte slice and
// can fail) calls one of these. The expected count on the tree is zero: canary mutant C18-decoder-trims-content.
func c18SizedNotSearched(c *Ctx) {
	isReaderOrBytes := func(t types.Type) bool {
		if t.String() == "[]byte" || t.String() == "io.Reader" {
			return true
		}
		return false
	}
	search := func(call ssa.CallInstruction) (string, bool) {
		if n, ok := isSentinelSearch(call); ok {
			return n, true
		}
		f := call.Common().StaticCallee()
		if f == nil || f.Pkg == nil {
			return "", false
		}
		switch f.Pkg.Pkg.Path() {
		case "bytes", "strings":
			n := f.Name()
			for _, p := range []string{"Cut", "Split", "Trim", "Fields"} {
				if strings.HasPrefix(n, p) {
					return f.Pkg.Pkg.Name() + "." + n, true
				}
			}
		}
		return "", false
	}
	nDec, nBad := 0, 0
	for _, f := range c.P.RepoFunctions() {
		rel := load.RelPkg(f)
		if (rel != "eventlog" && rel != "ovmf/abi") || c.isTestFunc(f) || f.Blocks == nil || errIndex(f.Signature) < 0 {
			continue
		}
		dec := false
		for i, p := range f.Params {
			if i == 0 && f.Signature.Recv() != nil {
				continue
			}
			dec = dec || isReaderOrBytes(p.Type())
		}
		if !dec {
			continue
		}
		nDec++
		for _, call := range callsIn(f, func(call ssa.CallInstruction) bool { _, ok := search(call); return ok }) {
			n, _ := search(call)
			nBad++
			c.S.Bad("R14", load.FuncName(f)+":content search "+n, c.pos(call.Pos()), "a decoder delimits a value by searching its content ("+n+"): the encoder writes the field verbatim with its size, so a value that contains the delimiter does not decode to what was encoded")
		}
	}
	c.S.Floor("R14", "decoding functions of the stream codec packages", 10, nDec)
	if nBad == 0 {
		c.S.OK("R14", "eventlog, ovmf/abi:sized fields are cut by size", "", fmt.Sprintf("no content search in %d decoding functions", nDec), true)
	}
}

// failsOnLengthAlone: every error return of g stands on the failing edge of one comparison of len(parameter pi) with
// a constant k (len < k, or len != k when exact) and g has no other way to fail. Returns the parameter, k, whether
// the length must match exactly, and ok.
func failsOnLengthAlone(g *ssa.Function) (pi int, k int64, exact, ok bool) {
	ei := errIndex(g.Signature)
	if ei < 0 || g.Blocks == nil {
		return 0, 0, false, false
	}
	pi, k = -1, 0
	nErr := 0
	for _, b := range g.Blocks {
		ret, isRet := b.Instrs[len(b.Instrs)-1].(*ssa.Return)
		if !isRet || isNilK(ret.Results[ei]) {
			continue
		}
		nErr++
		found := false
		for _, cf := range dominatingConds(b) {
			bo, isB := cf.Cond.(*ssa.BinOp)
			if !isB {
				continue
			}
			x, isLen := lenArg(stripConv(bo.X))
			kk, isK := constInt(stripConv(bo.Y))
			if !isLen || !isK {
				continue
			}
			prm, isP := x.(*ssa.Parameter)
			if !isP {
				continue
			}
			idx := -1
			for i, q := range g.Params {
				if q == prm {
					idx = i
				}
			}
			op := bo.Op
			if !cf.Val {
				op = negOp(op)
			}
			switch op {
			case token.LSS:
				if pi >= 0 && (pi != idx || kk != k || exact) {
					return 0, 0, false, false
				}
				pi, k, found = idx, kk, true
			case token.NEQ:
				if pi >= 0 && (pi != idx || kk != k || !exact) {
					return 0, 0, false, false
				}
				pi, k, exact, found = idx, kk, true, true
			}
		}
		if !found {
			// a tail call: return h(…, p, …) where h fails on the length of that parameter alone
			var tc *ssa.Call
			switch x := ret.Results[ei].(type) {
			case *ssa.Call:
				tc = x
			case *ssa.Extract:
				tc, _ = x.Tuple.(*ssa.Call)
			}
			if tc != nil {
				if h := tc.Call.StaticCallee(); h != nil && h != g && load.FuncInRepo(h) {
					if hpi, hk, hexact, hok := failsOnLengthAlone(h); hok && hpi < len(tc.Call.Args) {
						if prm, isP := tc.Call.Args[hpi].(*ssa.Parameter); isP {
							for i, q := range g.Params {
								if q == prm && (pi < 0 || (pi == i && hk == k && hexact == exact)) {
									pi, k, exact, found = i, hk, hexact, true
								}
							}
						}
					}
				}
			}
		}
		if !found {
			// a wrapper: the error is the one of a callee that fails on the length of the same parameter alone
			for _, cf := range dominatingConds(b) {
				bo, isB := cf.Cond.(*ssa.BinOp)
				if !isB || !isNilK(bo.Y) || (bo.Op == token.NEQ) != cf.Val {
					continue
				}
				ex, isEx := bo.X.(*ssa.Extract)
				if !isEx {
					continue
				}
				hc, isCall := ex.Tuple.(*ssa.Call)
				if !isCall {
					continue
				}
				h := hc.Call.StaticCallee()
				if h == nil || h == g || !load.FuncInRepo(h) || ex.Index != errIndex(h.Signature) {
					continue
				}
				hpi, hk, hexact, hok := failsOnLengthAlone(h)
				if !hok || hpi >= len(hc.Call.Args) {
					continue
				}
				prm, isP := hc.Call.Args[hpi].(*ssa.Parameter)
				if !isP {
					continue
				}
				idx := -1
				for i, q := range g.Params {
					if q == prm {
						idx = i
					}
				}
				if idx < 0 || (pi >= 0 && (pi != idx || hk != k || hexact != exact)) {
					continue
				}
				pi, k, exact, found = idx, hk, hexact, true
			}
		}
		if !found {
			return 0, 0, false, false
		}
	}
	if nErr == 0 || pi < 0 {
		return 0, 0, false, false
	}
	return pi, k, exact, true
}

// inMemoryWriter: the value is (an interface over) a *bytes.Buffer or a hash.Hash.
func inMemoryWriter(v ssa.Value) bool {
	for i := 0; i < 3; i++ {
		switch x := v.(type) {
		case *ssa.MakeInterface:
			v = x.X
		case *ssa.ChangeInterface:
			v = x.X
		}
	}
	t := v.Type().String()
	return t == "*bytes.Buffer" || t == "hash.Hash" || strings.HasSuffix(t, "strings.Builder")
}
