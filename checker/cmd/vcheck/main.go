// vcheck decides the static rules of one property against /repo's working tree.
//
//	vcheck -prop C10 [-tier quick|thorough] [-evidence dir] [-findings file]
//	vcheck replay <file>
//
// Exit status: 0 property held on everything analysed (known findings are
// printed as KNOWN-FINDING lines); 1 violation (a VIOLATION line per failing
// obligation); 2 checker malfunction (no VIOLATION line).
package main

import (
	"encoding/json"
	"flag"
	"fmt"
	"os"
	"os/exec"
	"path/filepath"
	"runtime/debug"
	"sort"
	"strconv"
	"strings"
	"sync"
	"time"

	"verif/checker/load"
	"verif/checker/report"
	"verif/checker/rules"
)

func main() {
	if len(os.Args) > 1 && os.Args[1] == "replay" {
		replay(os.Args[2:])
		return
	}
	prop := flag.String("prop", "", "property id")
	tier := flag.String("tier", envOr("VERIF_TIER", "quick"), "quick|thorough")
	evdir := flag.String("evidence", "/verif/evidence", "evidence directory")
	findings := flag.String("findings", "/verif/known_findings.json", "known findings file")
	repo := flag.String("repo", "", "repository root (default $VERIF_REPO or /repo)")
	verbose := flag.Bool("v", false, "print all obligations")
	noEvidence := flag.Bool("no-evidence", false, "do not write evidence (used for seeded variants)")
	overlay := flag.String("overlay", "", "JSON file {file: contents} of overlay edits (seeded variants)")
	flag.Parse()
	if *tier != "thorough" {
		*tier = "quick"
	}
	rs := rules.Get(*prop)
	if rs == nil {
		fmt.Fprintf(os.Stderr, "vcheck: unknown property %q (have %v)\n", *prop, rules.IDs())
		os.Exit(2)
	}
	code := run(rs, *tier, *evdir, *findings, *repo, *overlay, *verbose, *noEvidence)
	os.Exit(code)
}

func envOr(k, d string) string {
	if v := os.Getenv(k); v != "" {
		return v
	}
	return d
}

func run(rs *rules.RuleSet, tier, evdir, findingsPath, repo, overlayPath string, verbose, noEvidence bool) (code int) {
	start := time.Now()
	defer func() {
		if r := recover(); r != nil {
			fmt.Fprintf(os.Stderr, "vcheck: checker malfunction (panic): %v\n%s\n", r, debug.Stack())
			code = 2
		}
	}()
	seed, _ := strconv.Atoi(os.Getenv("VERIF_SEED"))
	var ov map[string][]byte
	if overlayPath != "" {
		data, err := os.ReadFile(overlayPath)
		if err != nil {
			fmt.Fprintln(os.Stderr, "vcheck:", err)
			return 2
		}
		var m map[string]string
		if err := json.Unmarshal(data, &m); err != nil {
			fmt.Fprintln(os.Stderr, "vcheck:", err)
			return 2
		}
		ov = map[string][]byte{}
		for k, v := range m {
			ov[k] = []byte(v)
		}
	}
	set := report.NewSet(rs.ID)
	type cfgT struct {
		tests bool
		arch  string
	}
	cfgs := []cfgT{{false, ""}}
	if tier == "thorough" && rs.Arch386 {
		cfgs = append(cfgs, cfgT{false, "386"})
	}
	var loaded []string
	for i, cf := range cfgs {
		p, err := load.Load(load.Config{Repo: repo, Tests: cf.tests, GOARCH: cf.arch, Overlay: ov})
		if err != nil {
			if _, ok := err.(*load.MalfunctionError); ok && i == 0 {
				fmt.Fprintf(os.Stderr, "vcheck: checker malfunction: %v\n", err)
				return 2
			}
			fmt.Fprintf(os.Stderr, "vcheck: configuration tests=%v arch=%q not analysed: %v\n", cf.tests, cf.arch, err)
			set.Note("configuration tests=%v arch=%q could not be loaded: %v", cf.tests, cf.arch, err)
			continue
		}
		nf := len(p.RepoFunctions())
		loaded = append(loaded, fmt.Sprintf("tests=%v arch=%s: %d root packages, %d total, %d repo functions", cf.tests, archName(cf.arch), len(p.Roots), p.NumPkgs, nf))
		set.Count("packages", p.NumPkgs)
		set.Count("repo_functions", nf)
		sub := set
		if i > 0 {
			sub = report.NewSet(rs.ID)
		}
		ctx := &rules.Ctx{P: p, S: sub, Tier: tier, Arch: cf.arch, Tests: cf.tests}
		rs.Run(ctx)
		if i > 0 {
			// merge: obligations of additional configurations are tagged
			tag := fmt.Sprintf(" [tests=%v arch=%s]", cf.tests, archName(cf.arch))
			have := map[string]bool{}
			for _, o := range set.Obs {
				have[o.Key()+string(o.Status)] = true
			}
			for _, o := range sub.Obs {
				if have[o.Key()+string(o.Status)] {
					set.Count("obligations_reconfirmed", 1)
					continue
				}
				o.Detail += tag
				set.Obs = append(set.Obs, o)
			}
			for k, v := range sub.Counters {
				set.Counters[k] += v
			}
			set.Floors = append(set.Floors, sub.Floors...)
			set.Notes = append(set.Notes, sub.Notes...)
		}
		p = nil
		debug.FreeOSMemory()
	}
	ff, err := report.LoadFindings(findingsPath)
	if err != nil {
		fmt.Fprintf(os.Stderr, "vcheck: cannot read known findings: %v\n", err)
		return 2
	}
	set.ApplyKnown(ff)
	total, discharged, violated, known, undecided, nontrivial := set.Summary()
	replayDir := filepath.Join(evdir, "replay")
	k := 0
	var samples []any
	for _, o := range set.Sorted() {
		switch o.Status {
		case report.Violated, report.Undecided:
			k++
			path := "-"
			if !noEvidence {
				path = report.WriteReplay(replayDir, o, k)
				o.Replay = path
			}
			fmt.Printf("VIOLATION property=%s replay=%s\n", rs.ID, path)
			fmt.Printf("  %s\n", o.Short())
			for _, w := range o.Witness {
				fmt.Printf("      %s\n", w)
			}
		case report.Known:
			fmt.Printf("KNOWN-FINDING: property=%s %s [%s %s]\n", rs.ID, o.Detail, o.Rule, o.Construct)
		default:
			if verbose {
				fmt.Printf("  %s\n", o.Short())
			}
		}
		if len(samples) < 400 {
			samples = append(samples, o)
		}
	}
	var variants []variantResult
	if overlayPath == "" && !noEvidence {
		variants = runVariants(rs.ID, tier, repo)
		for _, v := range variants {
			fmt.Printf("  seeded variant %s: %s\n", v.ID, v.Outcome)
		}
	}
	wall := time.Since(start).Seconds()
	fmt.Printf("%s tier=%s: %d obligations, %d discharged, %d violated, %d known, %d undecided (%.1fs)\n", rs.ID, tier, total, discharged, violated, known, undecided, wall)
	for _, l := range loaded {
		fmt.Println("  analysed", l)
	}
	for _, n := range set.Notes {
		fmt.Println("  note:", n)
	}
	if !noEvidence {
		cov := map[string]any{
			"explanation":         rs.Explanation,
			"obligations":         total,
			"discharged":          discharged,
			"known_findings":      known,
			"undecided":           undecided,
			"evaluations":         total,
			"distinct_nontrivial": nontrivial,
			"rule":                "one evaluation per rule instance (obligation) found in the loaded program; an obligation is non-trivial when deciding it needed a path exploration, a dataflow query or a table comparison (not a mere existence check); distinct by (rule, construct)",
			"samples":             samples,
			"checker_cmd":         strings.Join(os.Args, " "),
			"trusted_base":        rs.Assumptions,
			"analysed":            loaded,
			"counters":            set.Counters,
			"floors":              set.Floors,
			"notes":               set.Notes,
			"exhaustive":          false,
			"seeded_variants":     variants,
		}
		ev := report.Evidence{PropertyID: rs.ID, Tier: tier, Seed: seed, Level: "other", Coverage: cov, Assumptions: rs.Assumptions, WallS: wall, Violations: violated + undecided}
		os.MkdirAll(evdir, 0o755)
		data, _ := json.MarshalIndent(ev, "", " ")
		if err := os.WriteFile(filepath.Join(evdir, rs.ID+".json"), data, 0o644); err != nil {
			fmt.Fprintf(os.Stderr, "vcheck: cannot write evidence: %v\n", err)
			return 2
		}
	}
	if total == 0 {
		fmt.Fprintln(os.Stderr, "vcheck: checker malfunction: no obligations generated")
		return 2
	}
	if violated+undecided > 0 {
		return 1
	}
	return 0
}

func archName(a string) string {
	if a == "" {
		return "amd64"
	}
	return a
}

func replay(args []string) {
	if len(args) < 1 {
		fmt.Fprintln(os.Stderr, "usage: vcheck replay <file>")
		os.Exit(2)
	}
	data, err := os.ReadFile(args[0])
	if err != nil {
		fmt.Fprintln(os.Stderr, err)
		os.Exit(2)
	}
	var o report.Obligation
	if err := json.Unmarshal(data, &o); err != nil {
		fmt.Fprintln(os.Stderr, err)
		os.Exit(2)
	}
	rs := rules.Get(o.Property)
	if rs == nil {
		fmt.Fprintln(os.Stderr, "unknown property", o.Property)
		os.Exit(2)
	}
	p, err := load.Load(load.Config{})
	if err != nil {
		fmt.Fprintln(os.Stderr, err)
		os.Exit(2)
	}
	set := report.NewSet(rs.ID)
	rs.Run(&rules.Ctx{P: p, S: set, Tier: "quick"})
	found := false
	for _, x := range set.Obs {
		if x.Key() == o.Key() {
			found = true
			fmt.Println(x.Short())
			for _, w := range x.Witness {
				fmt.Println("    ", w)
			}
			if x.Status == report.Violated || x.Status == report.Undecided {
				fmt.Printf("VIOLATION property=%s replay=%s\n", o.Property, args[0])
				defer os.Exit(1)
			}
		}
	}
	if !found {
		fmt.Println("obligation no longer present on the current tree:", o.Key())
	}
}

// ---- seeded variants (positive controls) -----------------------------------

type variantSpec struct {
	ID       string `json:"id"`
	Property string `json:"property"`
	File     string `json:"file"` // relative to the repository root
	Old      string `json:"old"`
	New      string `json:"new"`
	Expect   string `json:"expect"` // substring expected in the report
	Canary   bool   `json:"canary"` // also run in the quick tier
	Note     string `json:"note"`
	// further replacements in the same file (each old text must occur exactly once), for a variant that needs e.g. a
	// new import or a new field next to the edited function
	Edits []struct {
		Old string `json:"old"`
		New string `json:"new"`
	} `json:"edits,omitempty"`
}

type variantResult struct {
	ID      string `json:"id"`
	Outcome string `json:"outcome"` // detected | MISSED | skipped: ... | does not compile
	Expect  string `json:"expect"`
	Note    string `json:"note,omitempty"`
}

// runVariants applies each seeded one-instance breakage of this property as an
// in-memory overlay (no copy of the repository is made) in a subprocess and
// records whether the rule reports it. Outcomes are informational: they never
// change the exit status, which speaks only about /repo.
func runVariants(prop, tier, repo string) []variantResult {
	if repo == "" {
		repo = envOr("VERIF_REPO", "/repo")
	}
	dir := envOr("VERIF_MUTANTS", "/verif/mutants")
	files, _ := filepath.Glob(filepath.Join(dir, prop+"-*.json"))
	sort.Strings(files)
	var specs []variantSpec
	for _, f := range files {
		data, err := os.ReadFile(f)
		if err != nil {
			continue
		}
		var sp variantSpec
		if json.Unmarshal(data, &sp) != nil || sp.Property != prop {
			continue
		}
		if tier != "thorough" && !sp.Canary {
			continue
		}
		specs = append(specs, sp)
	}
	var seeds []seedSpec
	if tier == "thorough" {
		seeds = loadSeeds(prop)
	}
	res := make([]variantResult, len(specs)+len(seeds))
	sem := make(chan struct{}, 4)
	var wg sync.WaitGroup
	for i, sp := range specs {
		wg.Add(1)
		go func(i int, sp variantSpec) {
			defer wg.Done()
			sem <- struct{}{}
			defer func() { <-sem }()
			r := variantResult{ID: sp.ID, Expect: sp.Expect, Note: sp.Note}
			abs := filepath.Join(repo, sp.File)
			src, err := os.ReadFile(abs)
			if err != nil || strings.Count(string(src), sp.Old) != 1 {
				r.Outcome = "skipped: the tree no longer contains the text this variant edits"
				res[i] = r
				return
			}
			edited := strings.Replace(string(src), sp.Old, sp.New, 1)
			for _, ed := range sp.Edits {
				if strings.Count(edited, ed.Old) != 1 {
					r.Outcome = "skipped: the tree no longer contains the text this variant edits"
					res[i] = r
					return
				}
				edited = strings.Replace(edited, ed.Old, ed.New, 1)
			}
			tmp, err := os.CreateTemp("", "vcheck-ov-*.json")
			if err != nil {
				r.Outcome = "skipped: " + err.Error()
				res[i] = r
				return
			}
			defer os.Remove(tmp.Name())
			json.NewEncoder(tmp).Encode(map[string]string{abs: edited})
			tmp.Close()
			cmd := exec.Command(os.Args[0], "-prop", prop, "-tier", "quick", "-no-evidence", "-overlay", tmp.Name(), "-repo", repo)
			out, err := cmd.CombinedOutput()
			code := 0
			if ee, ok := err.(*exec.ExitError); ok {
				code = ee.ExitCode()
			}
			switch {
			case code == 2:
				r.Outcome = "skipped: variant does not load/compile"
			case code == 1 && violationMentions(string(out), prop, sp.Expect):
				r.Outcome = "detected"
			case code == 1:
				r.Outcome = "detected (by another rule than expected)"
			default:
				r.Outcome = "MISSED"
			}
			res[i] = r
		}(i, sp)
	}
	for j, sd := range seeds {
		wg.Add(1)
		go func(i int, sd seedSpec) {
			defer wg.Done()
			sem <- struct{}{}
			defer func() { <-sem }()
			res[i] = runSeed(prop, repo, sd)
		}(len(specs)+j, sd)
	}
	wg.Wait()
	return res
}

// ---- independently seeded changes (sub-agent patches) as thorough-tier variants ----

type seedSpec struct {
	ID     string
	Dir    string
	Expect string // substring expected in a violated obligation of this property's check ("" = any violation)
	Note   string
}

// loadSeeds lists the seeded changes under /verif/seeded whose meta.json names prop among "checks".
func loadSeeds(prop string) []seedSpec {
	root := envOr("VERIF_SEEDED", "/verif/seeded")
	metas, _ := filepath.Glob(filepath.Join(root, "*", "meta.json"))
	sort.Strings(metas)
	var out []seedSpec
	for _, m := range metas {
		data, err := os.ReadFile(m)
		if err != nil {
			continue
		}
		var meta struct {
			Summary string            `json:"summary"`
			Checks  []string          `json:"checks"`
			Expect  map[string]string `json:"expect"`
		}
		if json.Unmarshal(data, &meta) != nil {
			continue
		}
		for _, p := range meta.Checks {
			if p == prop {
				dir := filepath.Dir(m)
				out = append(out, seedSpec{ID: "seed " + filepath.Base(dir), Dir: dir, Expect: meta.Expect[prop], Note: meta.Summary})
			}
		}
	}
	return out
}

// runSeed applies the seed's patch to copies of the files it touches (in a scratch directory outside the
// repository), hands the patched files to a child vcheck as an overlay, and records whether this property's check
// reports the change.
func runSeed(prop, repo string, sd seedSpec) variantResult {
	r := variantResult{ID: sd.ID, Expect: sd.Expect, Note: sd.Note}
	patch := filepath.Join(sd.Dir, "patch.diff")
	data, err := os.ReadFile(patch)
	if err != nil {
		r.Outcome = "skipped: no patch.diff"
		return r
	}
	var files []string
	for _, l := range strings.Split(string(data), "\n") {
		if strings.HasPrefix(l, "+++ b/") {
			files = append(files, strings.TrimSpace(strings.TrimPrefix(l, "+++ b/")))
		}
	}
	tmp, err := os.MkdirTemp("", "vcheck-seed-*")
	if err != nil {
		r.Outcome = "skipped: " + err.Error()
		return r
	}
	defer os.RemoveAll(tmp)
	for _, f := range files {
		src, err := os.ReadFile(filepath.Join(repo, f))
		if err != nil {
			continue // a file the patch creates
		}
		dst := filepath.Join(tmp, f)
		os.MkdirAll(filepath.Dir(dst), 0o755)
		os.WriteFile(dst, src, 0o644)
	}
	ap := exec.Command("git", "apply", "--whitespace=nowarn", patch)
	ap.Dir = tmp
	ap.Env = append(os.Environ(), "GIT_CEILING_DIRECTORIES="+filepath.Dir(tmp))
	if out, err := ap.CombinedOutput(); err != nil {
		r.Outcome = "skipped: the patch does not apply to the current tree (" + strings.TrimSpace(firstLine(string(out))) + ")"
		return r
	}
	ov := map[string]string{}
	for _, f := range files {
		b, err := os.ReadFile(filepath.Join(tmp, f))
		if err != nil {
			continue
		}
		ov[filepath.Join(repo, f)] = string(b)
	}
	ovf, err := os.CreateTemp("", "vcheck-ov-*.json")
	if err != nil {
		r.Outcome = "skipped: " + err.Error()
		return r
	}
	defer os.Remove(ovf.Name())
	json.NewEncoder(ovf).Encode(ov)
	ovf.Close()
	cmd := exec.Command(os.Args[0], "-prop", prop, "-tier", "quick", "-no-evidence", "-overlay", ovf.Name(), "-repo", repo)
	out, err := cmd.CombinedOutput()
	code := 0
	if ee, ok := err.(*exec.ExitError); ok {
		code = ee.ExitCode()
	}
	switch {
	case code == 2:
		r.Outcome = "skipped: variant does not load/compile"
	case code == 1 && (sd.Expect == "" || violationMentions(string(out), prop, sd.Expect)):
		r.Outcome = "detected"
	case code == 1:
		r.Outcome = "detected (by another rule than expected)"
	default:
		r.Outcome = "MISSED"
	}
	return r
}

func firstLine(s string) string {
	if i := strings.IndexByte(s, '\n'); i >= 0 {
		return s[:i]
	}
	return s
}

// violationMentions: some VIOLATION line's obligation summary (the line after
// it) contains expect.
func violationMentions(out, prop, expect string) bool {
	lines := strings.Split(out, "\n")
	for i, l := range lines {
		if strings.HasPrefix(l, "VIOLATION property="+prop) && i+1 < len(lines) && strings.Contains(lines[i+1], expect) {
			return true
		}
	}
	return false
}
