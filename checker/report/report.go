// Package report holds obligations, known findings and evidence writing.
package report

import (
	"encoding/json"
	"fmt"
	"os"
	"path/filepath"
	"sort"
	"strings"
)

// Status of an obligation.
type Status string

const (
	Discharged Status = "discharged"
	Violated   Status = "violated"
	Known      Status = "known"
	Undecided  Status = "undecided"
)

// Obligation is one rule instance.
type Obligation struct {
	Property   string   `json:"property"`
	Rule       string   `json:"rule"`
	Construct  string   `json:"construct"` // pkg.func + role; never a line
	Pos        string   `json:"pos,omitempty"`
	Status     Status   `json:"status"`
	Detail     string   `json:"detail,omitempty"`
	Witness    []string `json:"witness,omitempty"`
	NonTrivial bool     `json:"nontrivial,omitempty"` // needed path exploration / dataflow
	Replay     string   `json:"replay,omitempty"`
}

// Key identifies an obligation independent of line numbers.
func (o *Obligation) Key() string { return o.Property + "|" + o.Rule + "|" + o.Construct }

// Set collects the obligations of one property run.
type Set struct {
	Property string
	Obs      []*Obligation
	Notes    []string
	Counters map[string]int
	Floors   []Floor
}

// Floor records an instance-count floor and what was found.
type Floor struct {
	Rule  string `json:"rule"`
	What  string `json:"what"`
	Min   int    `json:"min"`
	Found int    `json:"found"`
}

func NewSet(prop string) *Set { return &Set{Property: prop, Counters: map[string]int{}} }

func (s *Set) add(rule, construct, pos string, st Status, nontrivial bool, detail string, witness []string) *Obligation {
	o := &Obligation{Property: s.Property, Rule: rule, Construct: construct, Pos: pos, Status: st, Detail: detail, Witness: witness, NonTrivial: nontrivial}
	for _, old := range s.Obs {
		if old.Key() == o.Key() && old.Status == o.Status && old.Pos == o.Pos {
			return old
		}
	}
	s.Obs = append(s.Obs, o)
	return o
}

// OK records a discharged obligation.
func (s *Set) OK(rule, construct, pos, detail string, nontrivial bool) *Obligation {
	return s.add(rule, construct, pos, Discharged, nontrivial, detail, nil)
}

// Bad records a violated obligation.
func (s *Set) Bad(rule, construct, pos, detail string, witness ...string) *Obligation {
	return s.add(rule, construct, pos, Violated, true, detail, witness)
}

// Unk records an undecided obligation (fails).
func (s *Set) Unk(rule, construct, pos, detail string) *Obligation {
	return s.add(rule, construct, pos, Undecided, true, detail, nil)
}

// Check records ok or bad depending on cond.
func (s *Set) Check(cond bool, rule, construct, pos, okDetail, badDetail string, witness ...string) bool {
	if cond {
		s.OK(rule, construct, pos, okDetail, true)
	} else {
		s.Bad(rule, construct, pos, badDetail, witness...)
	}
	return cond
}

// Floor demands at least min instances; fewer is a violation.
func (s *Set) Floor(rule, what string, min, found int) bool {
	s.Floors = append(s.Floors, Floor{rule, what, min, found})
	if found < min {
		s.Bad(rule, "floor:"+what, "", fmt.Sprintf("instance floor: expected at least %d %s, found %d (rule would pass vacuously)", min, what, found))
		return false
	}
	s.OK(rule, "floor:"+what, "", fmt.Sprintf("%d instances (floor %d)", found, min), false)
	return true
}

func (s *Set) Note(format string, a ...any) { s.Notes = append(s.Notes, fmt.Sprintf(format, a...)) }
func (s *Set) Count(k string, n int)        { s.Counters[k] += n }

// Finding is an entry of known_findings.json.
type Finding struct {
	Property  string `json:"property"`
	Rule      string `json:"rule,omitempty"`
	Construct string `json:"construct,omitempty"`
	What      string `json:"what"`
	Status    string `json:"status"` // "known" or "fixed"
	Commit    string `json:"commit,omitempty"`
	Line      string `json:"line,omitempty"` // "fixed: property=<id> <commit> <what failed>"
}

type FindingsFile struct {
	Comment  string    `json:"comment,omitempty"`
	Findings []Finding `json:"findings"`
}

func LoadFindings(path string) (*FindingsFile, error) {
	data, err := os.ReadFile(path)
	if err != nil {
		if os.IsNotExist(err) {
			return &FindingsFile{}, nil
		}
		return nil, err
	}
	var f FindingsFile
	if err := json.Unmarshal(data, &f); err != nil {
		return nil, err
	}
	return &f, nil
}

// ApplyKnown marks violated obligations listed as known.
func (s *Set) ApplyKnown(ff *FindingsFile) {
	for _, o := range s.Obs {
		if o.Status != Violated {
			continue
		}
		for _, f := range ff.Findings {
			if f.Status == "known" && f.Property == o.Property && f.Rule == o.Rule && f.Construct == o.Construct {
				o.Status = Known
				o.Detail = f.What + " — " + o.Detail
			}
		}
	}
}

// Evidence is the schema-conformant evidence file.
type Evidence struct {
	PropertyID  string         `json:"property_id"`
	Tier        string         `json:"tier"`
	Seed        int            `json:"seed"`
	Level       string         `json:"level"`
	Coverage    map[string]any `json:"coverage"`
	Assumptions []string       `json:"assumptions"`
	WallS       float64        `json:"wall_s"`
	Violations  int            `json:"violations"`
}

// Summary returns counts.
func (s *Set) Summary() (total, discharged, violated, known, undecided, nontrivial int) {
	seen := map[string]bool{}
	for _, o := range s.Obs {
		total++
		switch o.Status {
		case Discharged:
			discharged++
		case Violated:
			violated++
		case Known:
			known++
		case Undecided:
			undecided++
		}
		if o.NonTrivial && !seen[o.Key()] {
			seen[o.Key()] = true
			nontrivial++
		}
	}
	return
}

// Sorted returns obligations ordered by status severity then key.
func (s *Set) Sorted() []*Obligation {
	out := append([]*Obligation(nil), s.Obs...)
	rank := map[Status]int{Violated: 0, Undecided: 1, Known: 2, Discharged: 3}
	sort.SliceStable(out, func(i, j int) bool {
		if rank[out[i].Status] != rank[out[j].Status] {
			return rank[out[i].Status] < rank[out[j].Status]
		}
		return out[i].Key() < out[j].Key()
	})
	return out
}

// WriteReplay writes a replay file for a failing obligation and returns its path.
func WriteReplay(dir string, o *Obligation, k int) string {
	os.MkdirAll(dir, 0o755)
	p := filepath.Join(dir, fmt.Sprintf("%s-%d.json", o.Property, k))
	data, _ := json.MarshalIndent(o, "", " ")
	os.WriteFile(p, data, 0o644)
	return p
}

// Short renders one line.
func (o *Obligation) Short() string {
	s := fmt.Sprintf("[%s] %s %s %s", o.Status, o.Rule, o.Construct, o.Pos)
	if o.Detail != "" {
		s += ": " + o.Detail
	}
	return strings.TrimSpace(s)
}
