#!/bin/bash
# seed_matrix.sh [ids...]: for every confirmed seeded change, run ALL twenty checks against a scratch worktree with the
# change applied and record which checks raise a violation and the first violated obligation of each
# (rule + construct). Output: /verif/seeded/<id>/MATRIX.txt (one line per firing check). 6 seeds in parallel.
export GOPROXY=off GOSUMDB=off GOTOOLCHAIN=local GOFLAGS=
unset GOWORK
cd /verif
ids="$@"; [ -z "$ids" ] && ids=$(ls seeded | grep -E '^C[0-9]+-[0-9]+$')
props=$(python3 -c "import json;print(' '.join(c['property_id'] for c in json.load(open('/verif/MANIFEST.json'))['checks']))")
one() {
  id=$1; d=/verif/seeded/$id
  wt=$(mktemp -d /tmp/mx-XXXX); rmdir $wt
  git -C /repo worktree add -q --detach $wt HEAD || { echo "$id: WORKTREE FAILED"; return; }
  ( cd $wt && git apply $d/patch.diff ) 2>/dev/null || { echo "PATCH DOES NOT APPLY" > $d/MATRIX.txt; echo "$id: patch does not apply"; git -C /repo worktree remove --force $wt; return; }
  : > $d/MATRIX.txt
  for p in $props; do
    out=$(/verif/bin/vcheck -repo $wt -prop $p -tier quick -no-evidence 2>&1)
    first=$(echo "$out" | grep -E "^  \[(violated|undecided)\]" | head -1 | sed "s#$wt/##g" | sed -E 's/^  \[(violated|undecided)\] //' | cut -c1-220)
    n=$(echo "$out" | grep -c "^VIOLATION")
    [ $n -gt 0 ] && echo "$p $n | $first" >> $d/MATRIX.txt
  done
  git -C /repo worktree remove --force $wt
  echo "$id: $(cut -d' ' -f1 $d/MATRIX.txt | tr '\n' ' ')"
}
export -f one; export props
echo $ids | tr ' ' '\n' | xargs -P 6 -I{} bash -c 'one {}'
