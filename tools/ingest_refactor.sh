#!/bin/bash
# ingest_refactor.sh <id> "<props>": copy a sub-agent's behaviour-preserving refactoring from /tmp/refac-out/<id> to
# /verif/refactors/<id> and evaluate it (suite still green; the named checks must stay silent).
id=$1; props=$2
src=/tmp/refac-out/$id; dst=/verif/refactors/$id
[ -f $src/patch.diff ] || { echo "$id: no patch.diff"; exit 2; }
mkdir -p $dst; cp $src/patch.diff $src/NOTES.md $dst/
echo "$props" > $dst/PROPS.txt
/verif/tools/eval_refactor.sh $dst "$props" > /tmp/ingest-refac-$id.log 2>&1
cat $dst/EVAL.txt
