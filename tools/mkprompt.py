#!/usr/bin/env python3
"""mkprompt.py seed|refactor <prop> <n> [focus hint...]

Prints the prompt handed to a fresh sub-agent. The agent sees only the property's text (statement, quantifier,
anchor file list) and, to keep rounds from repeating each other, the one-line titles of the changes earlier
agents produced for the same property. Nothing about /verif's rules is included.
"""
import json, os, sys, glob

kind, prop, n = sys.argv[1], sys.argv[2], sys.argv[3]
hint = ' '.join(sys.argv[4:])
P = {}
for l in open('/verif/properties.jsonl'):
    p = json.loads(l); P[p['id']] = p
p = P[prop]
files = ', '.join(p['anchors']['files'])

def titles(root):
    out = []
    for d in sorted(glob.glob('/verif/%s/%s*' % (root, prop))):
        f = os.path.join(d, 'NOTES.md')
        if os.path.exists(f):
            t = open(f).readline().strip().lstrip('# ').strip()
            out.append(t[:200])
    return out

head = """## Property {id}: {title}
{statement}

Quantifier: {q}

Source files most relevant to this property (relative to the repo root): {files}
""".format(id=prop, title=p['title'], statement=p['statement'], q=p['quantifier']['text'], files=files)

env = """- The sandbox has no network. Before every go command: `export GOPROXY=off GOSUMDB=off GOTOOLCHAIN=local GOFLAGS=` (env does not persist between shell calls). The repo is a Go workspace (go.work uses `.` and `./gcetcbendorsement`), so run go commands from inside the worktree, e.g. `cd {wt} && go build ./... && go test -count=1 ./...` and `cd {wt}/gcetcbendorsement && go test -count=1 ./...`. (One test, testing/nonprod/localkm TestLoadKeys/bad_key_in_dir, fails at baseline when run as root; ignore it.) Do not leave large build output behind; `go clean -testcache` is not needed."""

if kind == 'seed':
    sid = '%s-%s' % (prop, n); wt = '/tmp/seed-' + sid
    prev = titles('seeded')
    prevtxt = ''
    if prev:
        prevtxt = "- Earlier engineers already produced the changes titled below for this property. Yours must be DIFFERENT IN KIND AND LOCATION (another function, another clause of the property, another failure mechanism), not a variation of one of them:\n" + '\n'.join('    * ' + t for t in prev) + '\n'
    print("""You are a software engineer helping to evaluate a verification effort for the Go repository google/gce-tcb-verifier. Your job: design ONE realistic code change ("seeded defect") to the repository that BREAKS the property stated below, while the repository still compiles and its existing test suite still passes, plus a demonstration (a Go test or small program) that fails with your change and passes without it.

{head}
## Ground rules
- Work ONLY inside your own scratch git worktree. Create it first: `git -C /repo worktree add --detach {wt} HEAD` and then work in {wt}. NEVER edit, build or run anything inside /repo itself, and do not read or touch /verif.
{env}
- The change must be something a plausible (careless or subtly wrong) commit could introduce: a refactor that drops a check on one path, a reordered step, a wrong variable, an off-by-one, a cache, an optimisation, a new early return, a helper used on the wrong value, etc. It must NOT be a trivially visible sabotage that ordinary use would expose at once, and must not touch test files. Prefer changes that need something specific to manifest: a particular interleaving, a fault at a particular point, a multi-step sequence of operations, an unusual input or option combination, or two cooperating sites that each look fine alone. Keep it small (typically 1-15 changed lines, possibly across two files).
{prev}{hint}- The existing test suite must still pass with your change (run both modules' tests to confirm; the always-failing localkm test aside).
- Write a demonstration: a new Go test file (name it zz_seed_demo_test.go, placed in the appropriate package directory) that FAILS (or panics / hangs until a watchdog you set) with your change applied and PASSES on the unchanged code. Verify both directions yourself (use `git stash` or `git diff > patch; git checkout .; ...; git apply patch`). Use the repository's own test helpers/fakes under testing/ where convenient.

## Deliverables
Create the directory /tmp/seed-out/{sid}/ containing:
- patch.diff : `git diff` of your change to NON-test source files only (must apply with `git apply` to a clean checkout of HEAD);
- the demonstration test file(s), plus a file DEMO_DIR.txt containing the package directory (relative to repo root) where the test file goes;
- NOTES.md : first line `# Seed {sid}: <one-line title>`; then what the change is, why it breaks the property, what specific circumstances it needs to manifest, the exact commands you ran and their (abridged) outputs for: build, full test suite with the change, demo with the change (failing), demo without the change (passing).
When done, remove your worktree: `git -C /repo worktree remove --force {wt}`.
Final answer: a 5-10 line summary of the change and how it manifests.""".format(head=head, wt=wt, env=env.format(wt=wt), prev=prevtxt, hint=('- Focus: ' + hint + '\n') if hint else '', sid=sid))
else:
    rid = '%s-%s' % (prop, n); wt = '/tmp/refac-' + rid
    prev = titles('refactors')
    prevtxt = ''
    if prev:
        prevtxt = "- Earlier refactorings of this area (do something different: other functions or another kind of restructuring):\n" + '\n'.join('    * ' + t for t in prev) + '\n'
    print("""You are a software engineer working on the Go repository google/gce-tcb-verifier. Your job: make ONE realistic, BEHAVIOUR-PRESERVING refactoring of the code that implements the property below — the kind of clean-up a maintainer would merge — so that the property still holds exactly as before. This is used to test that a verification tool does not raise false alarms on correct code.

{head}
## Ground rules
- Work ONLY inside your own scratch git worktree. Create it first: `git -C /repo worktree add --detach {wt} HEAD` and then work in {wt}. NEVER edit, build or run anything inside /repo itself, and do not read or touch /verif.
{env}
- The refactoring must touch the functions that actually implement the property's mechanism (not comments or unrelated code) and must be substantial enough to change the code's shape: for example extract a helper function or inline one, replace a switch by if/else or the reverse, restructure error handling (early returns vs. nested ifs, named results with defer), rename and re-scope local variables, split a function in two, change a loop form (range vs. index), move a check into a small validating helper that the original site calls, replace a closure by a method, reorder statements that are independent. Typically 15-60 changed lines in one or two non-test files. Do not touch test files.
{prev}{hint}- It must NOT change behaviour in any input, configuration, fault position or interleaving: same results, same errors in the same situations (error message wording may change only where no test depends on it), same order of externally visible effects (storage writes, key-manager calls, version-control calls, measurement events). If in doubt, keep the order.
- The existing test suite must still pass (run both modules' tests).

## Deliverables
Create the directory /tmp/refac-out/{rid}/ containing:
- patch.diff : `git diff` of your change (must apply with `git apply` to a clean checkout of HEAD);
- NOTES.md : first line `# Refactor {rid}: <one-line title>`; what you changed and a short argument why behaviour is preserved; the commands you ran and abridged outputs (build, both test suites).
When done, remove your worktree: `git -C /repo worktree remove --force {wt}`.
Final answer: a 3-6 line summary of the refactoring.""".format(head=head, wt=wt, env=env.format(wt=wt), prev=prevtxt, hint=('- Focus: ' + hint + '\n') if hint else '', rid=rid))
