#!/usr/bin/env python3
"""mkmutant.py <id> <file> <expect> [--canary] [--note text]  ; reads OLD and NEW separated by a line '=====' from stdin"""
import sys, json
a=sys.argv[1:]
mid, file, expect = a[0], a[1], a[2]
canary = '--canary' in a
note = a[a.index('--note')+1] if '--note' in a else ''
old, new = sys.stdin.read().split('\n=====\n')
if old.endswith('\n') and not new.endswith('\n'): pass
src=open('/repo/'+file).read()
assert src.count(old)==1, f"old text occurs {src.count(old)} times"
json.dump({"id":mid,"property":mid.split('-')[0],"file":file,"old":old,"new":new.rstrip('\n') if not old.endswith('\n') else new,"expect":expect,"canary":canary,"note":note}, open(f'/verif/mutants/{mid}.json','w'), indent=1)
print("wrote", mid)
