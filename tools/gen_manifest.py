#!/usr/bin/env python3
"""Regenerates /verif/MANIFEST.json from the table below (kept next to the
checker so that claims, techniques and not_applicable reasons are edited in one
place)."""
import json, os, sys

SETUP = ("cd /verif/checker && GOWORK=off GOFLAGS=-mod=mod GOPROXY=off GOSUMDB=off "
         "GOTOOLCHAIN=local go build -o /verif/bin/vcheck ./cmd/vcheck")

BASELINE = ("for m in . gcetcbendorsement; do (cd /repo/$m && GOFLAGS=-mod=mod GOPROXY=off GOSUMDB=off "
            "GOTOOLCHAIN=local go test -vet=off -count=1 -timeout 25m ./...); done")

TRUST = ("Trusted: Go type checker, go/ssa, VTA call graph (x/tools v0.29.0); documented behaviour of the "
         "standard library, protobuf, x509, multierr. Ignored: unsafe, reflection writes, panics as control flow. "
         "The check decides structural necessary conditions of the property (listed in the evidence explanation), "
         "not the behaviour itself.")

# id -> (claimed?, technique, text, design_ref, extra note)
CHECKS = {}
NA = {}

def claim(pid, technique, text, ref, note=""):
    CHECKS[pid] = dict(technique=technique, text=text, ref=ref, note=note)

def na(pid, reason):
    NA[pid] = reason

def also(pid, technique, text):
    """Appends rules added later to an existing claim."""
    CHECKS[pid]["technique"] += " + " + technique
    CHECKS[pid]["text"] += " " + text

exec(open(os.path.join(os.path.dirname(__file__), "claims.py")).read())

def main():
    checks = []
    for pid in sorted(CHECKS):
        c = CHECKS[pid]
        checks.append({
            "property_id": pid,
            "quick_cmd": f"/verif/bin/vcheck -prop {pid} -tier quick",
            "thorough_cmd": f"/verif/bin/vcheck -prop {pid} -tier thorough",
            "evidence_file": f"/verif/evidence/{pid}.json",
            "replay_cmd_template": "/verif/bin/vcheck replay {path}",
            "engine": "vcheck",
            "level_claimed": {"category": "other", "text": c["text"], "design_ref": c["ref"]},
            "level_note": (c["note"] + " " if c["note"] else "") + TRUST,
            "technique": c["technique"],
        })
    m = {
        "version": 1,
        "setup_cmd": SETUP,
        "hooks": {
            "guard": "verif",
            "enable": "none needed: the checks are static and read /repo's working tree as it is; no hook code exists",
            "baseline_off_cmd": BASELINE,
            "source_commits": [],
            "add_only": True,
        },
        "engines": [{
            "name": "vcheck",
            "path": "/verif/checker",
            "serves_properties": sorted(CHECKS),
            "kind_free_text": "custom static analyser on go/packages + go/ssa + VTA: ESP-style path-sensitive event simulation with summaries, backward value slicing, effect/ownership scans, constant-offset codec layout extraction",
        }],
        "checks": checks,
        "not_applicable": [{"property_id": p, "reason": NA[p]} for p in sorted(NA)],
        "notes": "All checks are static analyses of /repo's current source (nothing in /repo is executed). Known findings: /verif/known_findings.json. Seeded breakages: /verif/seeded/. See DESIGN.md.",
    }
    all_ids = [json.loads(l)["id"] for l in open("/verif/properties.jsonl")]
    missing = [p for p in all_ids if p not in CHECKS and p not in NA]
    if missing:
        sys.exit(f"properties neither claimed nor not_applicable: {missing}")
    json.dump(m, open("/verif/MANIFEST.json", "w"), indent=1)
    print("wrote MANIFEST.json:", len(checks), "claimed,", len(NA), "not applicable")

main()
