#!/bin/bash
# Runs the repository's pinned test suite (guard off; there are no hooks) and
# compares with /root/.vp/BASELINE.json stable_pass. Exit 0 iff all stable tests pass.
export GOPROXY=off GOSUMDB=off GOTOOLCHAIN=local GOFLAGS=
out=$(mktemp)
for m in . gcetcbendorsement; do
  (cd /repo/$m && go test -json -vet=off -count=1 -timeout 25m ./... ) >> "$out" 2>/dev/null
done
python3 - "$out" <<'P'
import json,sys
b=json.load(open('/root/.vp/BASELINE.json'))
res={}
for l in open(sys.argv[1]):
    try: e=json.loads(l)
    except Exception: continue
    if e.get('Action') in('pass','fail','skip') and e.get('Test'):
        res[e['Package']+'::'+e['Test']]=e['Action']
bad=[t for t in b['stable_pass'] if res.get(t)!='pass']
print('stable tests:',len(b['stable_pass']),'passing now:',len(b['stable_pass'])-len(bad))
for t in bad: print('NOT PASSING:',t,res.get(t))
sys.exit(1 if bad else 0)
P
rc=$?
rm -f "$out"
git -C /repo status --short
exit $rc
