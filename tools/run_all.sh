#!/bin/bash
# Runs every claimed check (quick by default) in parallel and reports exit codes; writes /verif/evidence.
tier=${1:-quick}
ids=$(python3 -c "import json;print(' '.join(c['property_id'] for c in json.load(open('/verif/MANIFEST.json'))['checks']))")
mkdir -p /tmp/runall
for p in $ids; do
  ( /verif/bin/vcheck -prop $p -tier $tier > /tmp/runall/$p.log 2>&1; echo "$p exit=$?" ) &
  while [ $(jobs -r | wc -l) -ge 5 ]; do sleep 0.5; done
done
wait
for p in $ids; do tail -n 200 /tmp/runall/$p.log | grep -E "tier=|VIOLATION|KNOWN|MISSED|malfunction" | head -5; done
