#!/bin/bash
# try_patch.sh <patch.diff> <props...>: apply a patch in a scratch worktree of /repo (never /repo itself), run the
# named checks against it (-repo), print verdict lines, remove the worktree.
pf=$(realpath $1); shift
export GOPROXY=off GOSUMDB=off GOTOOLCHAIN=local GOFLAGS=
unset GOWORK
wt=$(mktemp -d /tmp/trypatch-XXXX); rmdir $wt
git -C /repo worktree add -q --detach $wt HEAD || exit 2
( cd $wt && git apply $pf ) || { echo "PATCH DOES NOT APPLY"; git -C /repo worktree remove --force $wt; exit 3; }
for p in "$@"; do
  /verif/bin/vcheck -repo $wt -prop $p -tier quick -no-evidence 2>&1 | grep -E "^VIOLATION|^  \[violated\]|^  \[undecided\]|tier=|malfunction|panic" | sed "s#$wt/##g" | cut -c1-${CUT:-400}
done
git -C /repo worktree remove --force $wt
