#!/bin/bash
# eval_refactor.sh <refactor-dir> "<props>": a behaviour-preserving refactoring produced by a sub-agent
# (patch.diff + NOTES.md). Confirms in a scratch worktree that it applies, builds and keeps the 596
# stable tests green, then runs the named checks against that worktree: every report is a false alarm.
d=$1; prop=$2
export GOPROXY=off GOSUMDB=off GOTOOLCHAIN=local GOFLAGS=
unset GOWORK
wt=$(mktemp -d /tmp/evalrefac-XXXX); rmdir $wt
git -C /repo worktree add -q --detach $wt HEAD || exit 2
res=$d/EVAL.txt; : > $res
( cd $wt && git apply $d/patch.diff ) || { echo "PATCH DOES NOT APPLY" | tee -a $res; git -C /repo worktree remove --force $wt; exit 3; }
( cd $wt && go build ./... && cd gcetcbendorsement && go build ./... ) > /dev/null 2>&1 && echo "build: ok" | tee -a $res || echo "build: FAILED" | tee -a $res
out=$(mktemp)
for m in . gcetcbendorsement; do (cd $wt/$m && go test -json -vet=off -count=1 -timeout 25m ./... ) >> $out 2>/dev/null; done
python3 - "$out" <<'P' | tee -a $res
import json,sys
b=json.load(open('/root/.vp/BASELINE.json'))
r={}
for l in open(sys.argv[1]):
    try: e=json.loads(l)
    except Exception: continue
    if e.get('Action') in('pass','fail','skip') and e.get('Test'): r[e['Package']+'::'+e['Test']]=e['Action']
bad=[t for t in b['stable_pass'] if r.get(t)!='pass']
print('suite with refactoring: %d/%d stable tests pass'%(len(b['stable_pass'])-len(bad),len(b['stable_pass'])))
for t in bad[:10]: print('  NOT PASSING:',t)
P
rm -f $out
for p in $prop; do
  echo "== vcheck $p on the refactored tree:" | tee -a $res
  /verif/bin/vcheck -repo $wt -prop $p -tier quick -no-evidence 2>&1 | grep -E "^VIOLATION|^  \[violated\]|^  \[undecided\]|tier=|malfunction" | sed "s#$wt/##g" | cut -c1-400 | tee -a $res
done
git -C /repo worktree remove --force $wt
