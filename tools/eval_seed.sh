#!/bin/bash
# eval_seed.sh <seed-dir> <property> : confirms a seeded change (compiles, suite passes, demo fails with / passes
# without the change) in a scratch worktree, then applies it to /repo, runs the property's check and undoes it.
d=$1; prop=$2
export GOPROXY=off GOSUMDB=off GOTOOLCHAIN=local GOFLAGS=
wt=$(mktemp -d /tmp/evalseed-XXXX); rmdir $wt; bl=$(mktemp /tmp/evalseed-build-XXXX)
git -C /repo worktree add -q --detach $wt HEAD || exit 2
demodir=$(cat $d/DEMO_DIR.txt | tr -d '\n' | sed 's|^\./||; s|/$||')
res=$d/EVAL.txt; : > $res
( cd $wt && git apply $d/patch.diff ) || { echo "PATCH DOES NOT APPLY" | tee -a $res; git -C /repo worktree remove --force $wt; exit 3; }
( cd $wt && go build ./... && cd gcetcbendorsement && go build ./... ) > $bl 2>&1 && echo "build: ok" | tee -a $res || { echo "build: FAILED" | tee -a $res; tail -5 $bl | tee -a $res; }
# suite with the change
out=$(mktemp)
for m in . gcetcbendorsement; do (cd $wt/$m && go test -json -vet=off -count=1 -timeout 25m ./... ) >> $out 2>/dev/null; done
python3 - "$out" <<'P' | tee -a $res
import json,sys
b=json.load(open('/root/.vp/BASELINE.json'))
r={}
for l in open(sys.argv[1]):
    try: e=json.loads(l)
    except Exception: continue
    if e.get('Action') in('pass','fail','skip') and e.get('Test'): r[e['Package']+'::'+e['Test']]=e['Action']
bad=[t for t in b['stable_pass'] if r.get(t)!='pass']
print('suite with change: %d/%d stable tests pass'%(len(b['stable_pass'])-len(bad),len(b['stable_pass'])))
for t in bad[:10]: print('  NOT PASSING:',t)
P
rm -f $out
cp $d/*_test.go $wt/$demodir/ 2>/dev/null
names=$(grep -ho 'func Test[A-Za-z0-9_]*' $d/*_test.go | sed 's/func //' | paste -sd'|')
echo "demo WITH change:" | tee -a $res
( cd $wt/$demodir && timeout 600 go test -count=1 -run "$names" . 2>&1 | tail -4 ) | tee -a $res
( cd $wt && git apply -R $d/patch.diff )
echo "demo WITHOUT change:" | tee -a $res
( cd $wt/$demodir && timeout 600 go test -count=1 -run "$names" . 2>&1 | tail -3 ) | tee -a $res
# checker on the worktree with the change re-applied (no need to touch /repo; tools/try_seed.sh does the /repo run)
( cd $wt && git apply $d/patch.diff && rm -f $demodir/zz_seed_demo_test.go )
for p in $prop; do
  echo "== vcheck $p with change:" | tee -a $res
  /verif/bin/vcheck -repo $wt -prop $p -tier quick -no-evidence 2>&1 | grep -E "^VIOLATION|^  \[violated\]|^  \[undecided\]|tier=|malfunction" | sed "s#$wt/##g" | cut -c1-330 | tee -a $res
done
git -C /repo worktree remove --force $wt
rm -f $bl
