#!/bin/bash
# ingest_seed.sh <id> [extra props...]: copy a sub-agent's deliverable from /tmp/seed-out/<id> to /verif/seeded/<id> and
# confirm it with eval_seed.sh (build, suite, demo both ways, checks of the seed's property + extras in a scratch worktree).
id=$1; shift
src=/tmp/seed-out/$id; dst=/verif/seeded/$id
[ -f $src/patch.diff ] || { echo "$id: no patch.diff"; exit 2; }
mkdir -p $dst; cp $src/patch.diff $src/NOTES.md $src/DEMO_DIR.txt $dst/ 2>/dev/null; cp $src/*_test.go $dst/ 2>/dev/null
prop=${id%%-*}
/verif/tools/eval_seed.sh $dst "$prop $*" > /tmp/ingest-$id.log 2>&1
cat $dst/EVAL.txt
