#!/bin/bash
# regress_seeds.sh [ids...]: re-checks every confirmed seeded change (or the named ones) against the current
# checker: applies the patch in a scratch worktree, runs the seed's property check (-repo <worktree>), reports
# whether a violation is still raised. Also re-checks every behaviour-preserving refactor under /verif/refactors
# (must stay silent). 4 jobs in parallel.
export GOPROXY=off GOSUMDB=off GOTOOLCHAIN=local GOFLAGS=
unset GOWORK
cd /verif
ids="$@"; [ -z "$ids" ] && ids=$(ls seeded)
one() {
  id=$1; d=/verif/seeded/$id
  prop=$(python3 -c "import json;print(json.load(open('$d/meta.json'))['property'])" 2>/dev/null); [ -z "$prop" ] && prop=${id%%-*}
  extra=$(python3 -c "import json;print(' '.join(json.load(open('$d/meta.json')).get('also_check',[])))" 2>/dev/null)
  wt=$(mktemp -d /tmp/regr-XXXX); rmdir $wt
  git -C /repo worktree add -q --detach $wt HEAD || { echo "$id: WORKTREE FAILED"; return; }
  ( cd $wt && git apply $d/patch.diff ) || { echo "$id: PATCH DOES NOT APPLY"; git -C /repo worktree remove --force $wt; return; }
  n=0
  for p in $prop $extra; do
    k=$(/verif/bin/vcheck -repo $wt -prop $p -tier quick -no-evidence 2>&1 | grep -c "^VIOLATION")
    n=$((n+k))
  done
  git -C /repo worktree remove --force $wt
  if [ $n -gt 0 ]; then echo "$id: detected ($n)"; else echo "$id: MISSED"; fi
}
oner() {
  p=$1; d=/verif/refactors/$p
  props=$(cat $d/PROPS.txt 2>/dev/null); [ -z "$props" ] && props=$p
  wt=$(mktemp -d /tmp/regr-XXXX); rmdir $wt
  git -C /repo worktree add -q --detach $wt HEAD || { echo "refactor $p: WORKTREE FAILED"; return; }
  ( cd $wt && git apply $d/patch.diff ) || { echo "refactor $p: PATCH DOES NOT APPLY"; git -C /repo worktree remove --force $wt; return; }
  out=""
  for q in $props; do
    r=$(/verif/bin/vcheck -repo $wt -prop $q -tier quick -no-evidence 2>&1 | grep -E "^  \[violated\]|^  \[undecided\]|malfunction" | sed "s#$wt/##g" | cut -c1-200)
    [ -n "$r" ] && out="$out
  $q: $r"
  done
  git -C /repo worktree remove --force $wt
  if [ -z "$out" ]; then echo "refactor $p: silent"; else echo "refactor $p: FALSE ALARM$out"; fi
}
for id in $ids; do
  one $id &
  while [ $(jobs -r | wc -l) -ge 4 ]; do sleep 0.3; done
done
wait
if [ -z "$1" ]; then
  for p in $(ls refactors 2>/dev/null); do
    oner $p &
    while [ $(jobs -r | wc -l) -ge 4 ]; do sleep 0.3; done
  done
  wait
fi
