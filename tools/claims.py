# Edited as rules land. claim(id, technique, text, design_ref[, note]); na(id, reason)
claim("C10", "path-sensitive event/typestate simulation (ESP) over go/ssa with interprocedural summaries",
      "Decides on every path of rotate.Key / rotate.Bootstrap (all fault positions = :fail edges of the tracked calls) that the old key is destroyed only after Finalize succeeded, that no persistent step runs after a failed step, and that a nil return implies all steps succeeded. A structural necessary condition of failure-atomicity; it does not show that the surviving state works.",
      "DESIGN.md §3 C10")
PENDING = "static rules designed in DESIGN.md §3 but not implemented yet in this revision; not claimed until the rule set lands"
for p in ["C01","C02","C03","C04","C05","C06","C07","C08","C09","C11","C12","C13","C14","C15","C16","C17","C18","C19","C20"]:
    na(p, PENDING)
