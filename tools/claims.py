# Edited as rules land. claim(id, technique, text, design_ref[, note]); na(id, reason)
claim("C10", "path-sensitive event/typestate simulation (ESP) over go/ssa with interprocedural summaries + ESP on the storage-backed certificate upload (entry listed on success)",
      "Decides on every path of rotate.Key / rotate.Bootstrap (all fault positions = :fail edges of the tracked calls) that the old key is destroyed only after Finalize succeeded, that no persistent step runs after a failed step, and that a nil return implies all steps succeeded. A structural necessary condition of failure-atomicity; it does not show that the surviving state works. Also decides that the storage-backed authority returns success for an uploaded certificate only where its manifest entry was found or appended.",
      "DESIGN.md §3 C10")
claim("C14", "ESP path simulation of the retry loop and the attempt function + CFG loop-shape rule + backward slice of the parsed manifest bytes",
      "Decides on every path of endorse.RetrySubmit and the attempt function: a further attempt only after a failure the back end marked retriable; every back edge passes a counter increment and a CommitRetries comparison with a loop exit; nil return only after a successful attempt; workspace obtained per attempt and destroyed on every failing exit; Result once and only after a successful commit; manifest re-read from the attempt's workspace. The attempt count as a number is not decided.",
      "DESIGN.md §3 C14")
claim("C15", "flag-sensitive ESP reachability of effect events + who-may-call closure scan + store/address-taken scan + flag-wiring slice",
      "Decides that no workspace/VCS effect call is reachable on any path where DryRun may be true, that no key/CA/VCS call is reachable where MeasurementOnly may be true or from the measurement computation at all, that both flags are immutable after registration and wired to the installed Context, and that printed and signed measurements come from one computation.",
      "DESIGN.md §3 C15")
claim("C11", "ESP path simulation of gcsca.Finalize (write-order automaton) + who-may-call ownership scan + effect scan of the mutation type + ESP on the write primitive (nil only after Writer, Write, Close) + ESP on the certificate upload (entry listed on success)",
      "Decides for every path of the storage-backed Finalize (every upload order, every failing write) that no object is written after the manifest, that the manifest is not written after a failed upload, that manifest entries are appended only after the gated upload of the very object they name, that only the no-clobber gate and the manifest writer write to storage and only on behalf of Finalize, and that the mutation object has no persistent effect. Object-granularity crash prefixes are exactly the positions between these write events. Also decides that the write primitive reports a failed commit and that every certificate uploaded through the gate has a manifest entry on the success path.",
      "DESIGN.md §3 C11")
claim("C13", "ESP path simulation (existence-probe / overwrite-permission gate before endorsement writes; endorsement before manifest) + backward slices of manifest-entry fields + CFG ordering rule inside the manifest merge (no drop keyed by the new entry after its placement)",
      "Partial: decides the overwrite gate on every path to an endorsement-file write, that the manifest entry names the file just written and the SHA-384 of the supplied image, and file-before-manifest ordering. The four-way merge keeping path/digest uniqueness over histories is not decided. One known finding (snapshot mode writes <fw>.signed ungated). Also decides that the merge never filters by the new entry's digest/path after placing it.",
      "DESIGN.md §3 C13")
claim("C01", "ESP must-pass-through rules on the verification core, the chain check and every entry point enumerated by type + operand identity / access-path rules + cert-table registration shape",
      "Decides, for all paths of every function that receives roots of trust in verify, gcetcbendorsement and its CLI, that a nil result is only reachable through a successful chain verification (caller's pool and time, nil pool rejected first) and a successful PSS/SHA-256 signature check made with the verified certificate over the very payload bytes that were parsed, before any content is consumed; SNP validator registered as required. It shows no path accepts without the checks, not that the cryptography is strong.",
      "DESIGN.md §3 C01")
claim("C02", "flag-sensitive ESP acceptance rules (comparison true-edge must be passed) on verify.SNP, the validator closure, the core, SevPolicy and TdxPolicy + literal-field forwarding slices keyed by public flag names",
      "Decides on all paths that acceptance needs the true edge of a byte comparison between the report measurement and the value endorsed for the named configuration (keyed lookup; failed presence test never accepts), that the length gate precedes verification, that an expected digest is compared, that derived policies carry the measurement / a non-empty MRTD allow-list of the named configuration, and that the named count / RAM size is forwarded from CLI flags and library options. Byte-level equality and the external policy engines are trusted.",
      "DESIGN.md §3 C02")
claim("C09", "effect analysis with pointer provenance over the validator closures' call closure (no write to any object reachable from captured/caller options or globals) + global-store scan + effect analysis of the exported validation entry points",
      "Decides for every interleaving (by absence of shared writes, under the Go memory model) that validator closures and their makers write only memory allocated during the call; callers hand makers fresh options; no package-level state in the verifier packages is written after init. External libraries' internal state is trusted. Also decides that SevValidate/TdxValidate and their call closure write nothing into the options value the caller shares.",
      "DESIGN.md §3 C09")
claim("C17", "effect/provenance analysis (writes only to clones and literals) + field-write whitelist scan + flag-sensitive ESP gating of policy stores + provenance slices of placed values",
      "Decides that SevPolicy/TdxPolicy write only objects allocated in the call, that only the documented policy fields are ever written (key lists extended, body policy created only when absent), that Policy/Measurement/AnyMrTd are stored only behind overwrite permission or a successful conflict check whose nil result needs unset-or-equal base values, that a too-low SVN cannot succeed without overwrite, and that placed values come from the endorsement. Field-by-field value equality is not decided.",
      "DESIGN.md §3 C17")
claim("C20", "ESP guard rules on the KMS signer + CFG loop-shape rules on the paging loops (edge dominance by the next-page-token test) + ESP on pollers + switch-table exhaustiveness against the kmspb enum",
      "Decides on all paths that Sign returns a signature only behind the signature-CRC equality, the service's verified-checksum flags (request always carries both checksums, Castagnoli table) and the RSA-PSS/SHA-256 options guard; that every paged listing loop carries this response's next_page_token, goes round only when it is non-empty and leaves (other than by error / early find) only when it is empty; that pollers return a version only after observing ENABLED and can be cancelled; that the destroyable-state table is exhaustive with the documented mapping and alone gates destruction. The service's behaviour is trusted.",
      "DESIGN.md §3 C20")
claim("C06", "error-discipline scan (every error of the measurement/sign closure consumed; results used only under err==nil by branch dominance) + access-path identity of the image + field-writer table over the generated message types + loop-body and ordering rules",
      "Decides over the whole call closure of GoldenMeasurement and SignDoc that no error of a measurement step is dropped and no fallible result is used before its error is known nil, that the digest and every technology measurement read the same Context.Image, that every exported field of the signed messages has a writer fed from the listed request/context source, that each VMSA count is measured with Vcpus set from that count in the same iteration, and that the document is filled before its single marshal. Equality of digests with launch measurements is C04/C05's.",
      "DESIGN.md §3 C06")
claim("C16", "origin-set slices of object names and fetch URLs with per-origin guard dominance + ESP on the extractor's source precedence + who-may-open scan with secure-join provenance + emitted-event operand rules",
      "Partial: decides that object names/URLs are deterministic constant formats over hex(measurement) with distinct technology segments, that every bucket fetch is for a name derived from a measurement whose full length was checked at the derivation site (and never for the empty placeholder), that no fetch happens when local evidence was found and fetch is not forced, that returned evidence is a lookup result untouched, that efivarfs reads go only through SecureJoin under the configured root, and that both emitted events share one GUID with the URI built from the hex image digest. Parse-back equality of events and symlink behaviour are not decided.",
      "DESIGN.md §3 C16")
claim("C19", "loop-header φ co-update comparison in the path evaluator + switch exhaustiveness against the enum constants + dominance rule on ParsePath's accepting return + access-path identity of rendered bytes + sibling agreement of numeric-literal conversions (base) + parse-width vs conversion-width rule with constant folding of key-kind helpers",
      "Partial: decides that on every way round the evaluator's loop the descriptor cursor moves whenever the value cursor moves, that the step-kind and token-kind switches are exhaustive with rejecting defaults, that a path is returned only at end of input in a terminal state, and that the payload/signature renderings are the untouched field bytes. Value equality with a field-by-field walk, scanner progress and protoreflect panics on ill-typed paths are not decided. Also decides that every conversion of a number token reads it in the same base and that no literal is parsed wider than the type it is converted to.",
      "DESIGN.md §3 C19")
claim("C03", "SSA value identity of signed and stored bytes + sibling-agreement scan of PSS parameters, certificate/KMS algorithm constants and the documented openssl command's constant + single key-name value rule + extended-key-usage agreement between certificate templates and x509 chain-verification sites",
      "Partial: decides that the bytes signed are the very byte slice stored and later parsed (one marshal, SHA-256 over it, signature stored from Signer.Sign), that signer, verifier, certificate templates, KMS key templates and the documented openssl flow agree on RSA-PSS/SHA-256/salt=hash, and that certificate, bundle and signature are requested for one primary key version. That verification succeeds at run time, validity windows and rotation histories are not decided. Also decides that any extended key usage a template sets is acceptable to every chain-verification site.",
      "DESIGN.md §3 C03")
claim("C12", "origin-sharing slices of certificate serial vs subject serial in every template producer + ESP no-clobber gate rule + ESP rotation rules (old key retired) + per-arm constant checks of the certificate profile + operand rule on the serial increment + who-may-write scan around the gate",
      "Partial: decides the inductive step of the history invariants — every template producer derives certificate serial and subject serial from one source, lifetimes and usages match the certificate kind per branch, stored objects are written only when absent or overwrite is allowed, a successful rotation has retired the old key, and the default serial is the primary subject serial plus the constant one. Arithmetic over histories, key-name uniqueness and wipeout completeness are not decided. Also decides that no storage write of the authority other than the manifest write bypasses the gate.",
      "DESIGN.md §3 C12")
claim("C18", "constant-offset layout extraction from the typed AST (tiling, widths, reader/writer table agreement, length guards, range checks before narrowing) + stream-codec field-order comparison + static size sums of HOB writers + read-count rule on SSA + no-reslice-past-len rule on SSA + full-range requirement for copy-based range writers + narrowing rule on the stream encoders",
      "Partial: decides for every fixed-layout codec that the written ranges are disjoint, as wide as their primitives and tile [0, guarded size) exactly; that reader and writer map each range to the same field; that every constant access is behind a sufficient length guard and every narrowing conversion behind a range check; that stream codecs marshal and unmarshal fields in the same order, fixed-size HOB writers report the sum of what they write, and read counts are checked. decode∘encode identity as values, padding tolerance and GUID byte order are not decided. Also decides that padding is never uncovered from spare capacity, that range-writer helpers fill their whole range, and that stream encoders range-check the very expression they narrow (<= 16 bits).",
      "DESIGN.md §3 C18")
claim("C07", "local exact rules over the relying-party call closure: nil-guard dominance by access path (message pointers), decoded-integer taint to allocation sizes with bound dominance, read-count rule, layout length guards, panic/Must scan, event-log loop progress shape + sentinel-index sign tests, len(x)-k guards, widening-after-narrow-arithmetic bounds, ESP relation of loop bounds to buffer lengths",
      "Decides specific necessary conditions of totality: no possibly-nil decoded sub-message is dereferenced without a nil check, no allocation is sized by an unbounded decoded integer, every Read count is checked, every constant-offset decoder guards its own length, no explicit panic / Must helper on input, and the event-log loop only goes round after a successful record read. It is not a general absence-of-panic proof: external decoders and non-constant index arithmetic are not covered. Also: search results (-1) are sign-tested before use as index, x[len(x)-k] is behind len(x) >= k, narrow arithmetic on decoded values is bounded before widening.",
      "DESIGN.md §3 C07")
claim("C08", "local exact rules over the firmware-analysis call closure: decoded-integer taint to allocation sizes and to bounds of hashing loops with bound dominance, layout length guards, nullable-result nil checks, narrow count*size arithmetic rule, range-check-before-page-loop dominance, panic/Must scan + sentinel-index sign tests, len(x)-k guards, widening-after-narrow-arithmetic bounds, ESP relation of loop bounds to buffer lengths, ESP lock-step of slices indexed by saved loop counters",
      "Decides specific necessary conditions of totality and boundedness: no allocation or hashing loop is driven by an unbounded decoded size (four known findings: TDVF hand-off/temp-memory sizes), fixed-offset decoders guard their length and their nil results are checked, count*size checks are done in 64 bits or after a bound, SEV page loops run only after the range check, no explicit panic on image data. Not a general absence-of-panic proof for non-constant index arithmetic. Also: x[len(x)-k] behind len(x) >= k, narrow arithmetic on decoded values bounded before widening, loop-carried slices only where executed checks relate the loop bound to the buffer length, saved-index slices filled exactly once per iteration.",
      "DESIGN.md §3 C08")
claim("C04", "ESP ordering automaton over measurement events (constant page-type operands) + operand rules for ROM/VMSA addresses + kind→page-type table extraction from the φ of the switch + effect analysis (image parameter never written) + nondeterminism-source scan + stores of the AP reset vector (dominance) + sort-operand provenance in the closure",
      "Partial: decides the structural clauses — ROM, then metadata pages, then VMSAs on every path; ROM at RomTop−len(image) and VMSAs at the product's highest page; the kind→page-type table is exhaustive over the declared kinds with the documented mapping and a rejecting default; the image is never written; no clock/random/map-order dependence. Equality with the AMD digest chain and all numeric clauses are not decided (layouts are under C18). Also decides that the reset block's RIP / CS base are stored unconditionally into the additional VMSAs and that declared section order is never sorted in place.",
      "DESIGN.md §3 C04")
claim("C05", "provenance rule on sort operands (copies only) + ESP on the per-page record sequence with the extend flag + ESP ordering automaton on the hand-off block builder + section-type switch agreement between validator and parser + dominance rule on the shared sweep cursor (invariant stated in the code)",
      "Partial: decides that declared order is never permuted in place and regions are measured in parser order, that page-add precedes extension with the same address and extension happens only under the ExtendMR/measure-all flag, that the hand-off block is written table → declared sections → unaccepted memory → end marker → padding, and that validator and parser accept the same section types and reject others. The SHA-384 stream contents, interval subtraction and RAM-bank values are not decided. Also decides that the section cursor shared by all RAM banks advances only behind `section empty` or `section <= bank start`.",
      "DESIGN.md §3 C05")
PENDING = "static rules designed in DESIGN.md §3 but not implemented yet in this revision; not claimed until the rule set lands"
for p in []:
    na(p, PENDING)


# ---- rules added in the third build session (DESIGN 7.2, 7.5) ----
also("C02", "cert-table registration shape shared with C01.R4",
     "Also decides that the validator closure which makes these comparisons is registered with go-sev-guest as a required certificate-table entry (otherwise its verdict is discarded).")
also("C03", "ESP guard rules on the Cloud KMS signer (shared with C20.R1)",
     "Also decides that the Cloud KMS signer hands back a signature only after the service confirmed the checksums of the digest that was sent, so what is signed is the digest SignDoc computed.")
also("C04", "ESP one-ROM/one-boot-VMSA-per-measurement-object automaton + operand rule on metadata ranges + per-count options rules shared with C06",
     "Also decides that every measurement object receives the ROM once and at most one VMSA list that begins with the boot processor, that metadata pages are measured only through the range primitive over [section.Address, +section.Length) of one section, and that each per-count digest is computed with that count and the requested product.")
also("C05", "per-iteration options rule shared with C06.R8 (TDX constructs)",
     "Also decides that the launch options of each measurement in the machine-shape loop are set in that iteration (no legacy/early-accept setting leaks into another configuration's MRTD).")
also("C06", "ESP rule that an SVN assignment reaches every requested technology",
     "Also decides that a function assigning the SVN of one technology's request assigns the other technology's on every successful path unless that request is nil or dropped.")
also("C07", "loop-progress classification (counted / iterator / consumption loops)",
     "Also decides loop progress for the counted, iterator and consumption loops of the closure and reports a loop variable moved by a decoded amount that no check makes positive; other loop shapes are only counted.")
also("C08", "loop-progress classification (counted / iterator / consumption / sweep loops with frozen progress guards)",
     "Also decides loop progress for every loop of the closure that is a counted, iterator or consumption loop, and for the one sweep loop (unacceptedMemRanges) that each back edge which keeps the cursor lies behind the non-emptiness and overlap tests that make the iteration consume something; other loop shapes are only counted.")
also("C10", "ESP write-order and commit-honesty rules of the storage-backed authority (shared with C11.R1/R2/R6)",
     "Also decides that the storage-backed Finalize writes the manifest last and never after a failed upload and that storage/ops.WriteFile reports a failed Close, on which 'durably recorded before the old key is destroyed' rests.")
also("C12", "who-may-write scan of x509.Certificate fields (profile ownership)",
     "Also decides that no production function adjusts a certificate template it did not allocate (the profile chosen by the template producers is final).")
also("C13", "constant-flag rule on file-opening primitives in ChangeOps back ends",
     "Also decides that every in-repo ChangeOps.WriteOrCreateFiles replaces file contents wholly (no open-for-write without O_TRUNC).")
also("C14", "allocation-provenance rule for the manifest object (per attempt)",
     "Also decides that the object the manifest is parsed into, extended and written back from is allocated during the attempt (not captured from outside the retry closure, a field or a global).")
also("C16", "ESP forced-fetch rule + flow rule that emitted events are not parked in fields/globals",
     "Also decides that with ForceFetch known true Endorsement succeeds only after a successful network Get, and that the events maker's result is published in the invocation that computed it and never stored in a field or global.")
also("C17", "sibling-list guard rule on the trusted-key appends",
     "Also decides that no guard in front of the append to one trusted-key list consults the other list.")
also("C18", "no-silent-truncation rule for stream encoders; field-order comparison restricted to calls that involve the stream",
     "Also decides that a stream encoder never writes a prefix x[:k] of an encoded field unless len(x) == k was established.")
also("C19", "ESP rule that protoreflect.Value kind conversions in the evaluator follow the matching descriptor test",
     "Also decides that Value.List/Map/Message are called in the evaluator only after IsList / IsMap / (not a list and not a map) was established for the descriptor cursor, which removes the panic found on un-indexed repeated fields (fixed).")

# ---- rules added after the round-6 seeds ----
also("C03", "purity rule (no package-level writes in the signing / rotation closures) + upload/entry agreement shared with C11",
     "Also decides that signing and certification keep no package-level state (no process-wide memo of keys, certificates or signatures) and that a key version's manifest entry names the object uploaded for it.")
also("C04", "purity rule (no package-level writes in the digest closure)",
     "Also decides that no write in the closure of LaunchDigest / UnsignedSnp goes to a package-level variable.")
also("C05", "purity rule for the MRTD closure + region/section lock-step rule shared with C08.T14",
     "Also decides that the MRTD computation writes no package-level variable and that one material region is appended per declared section, so the index saved for the TD hand-off section addresses its region.")
also("C06", "ESP rule that flag-guarded inputs are loaded on every successful path of the command layer",
     "Also decides that a Context field loaded under its own flag test is loaded whenever that flag may be set (no early return in front of the block).")
also("C07", "remainder-loop rule for encoding/pem",
     "Also decides that a loop replacing its input by pem.Decode's remainder goes round only where a block was found.")
also("C09", "shallow-copy aliasing in the provenance analysis + re-sliced append destinations as writes",
     "The effect analysis follows slice/map/pointer fields through shallow struct copies and counts append(x[:k], …) as a write to x's backing array.")
also("C10", "context-continuity scan over the rotation closure",
     "Also decides that no call in the closure of rotate.Key / rotate.Bootstrap receives a context rooted at context.Background()/TODO() (the operator's overwrite permission travels in the context).")
also("C11", "one-transaction-per-operation rule shared with C10.R5",
     "Also decides that rotate.Bootstrap finalizes only after both certificates were signed (no intermediate manifest that names a primary key without a certificate).")
also("C12", "method-set rule on key managers that embed another key manager",
     "Also decides that a key manager overriding the Create* methods of an embedded manager overrides DestroyKeyVersion and Wipeout too.")
also("C13", "value-flow rule from prototext.Marshal to the written manifest contents (constant framing only)",
     "Also decides that the manifest bytes written are the marshaller's output with constant framing only.")
also("C16", "who-may-call scan for limiting readers in the locator's closure",
     "Also decides that local evidence is read whole (no io.LimitReader / LimitedReader / CopyN in the locator's closure).")
also("C18", "ESP must-assign rule for decoders with a pointer-to-slice out-parameter",
     "Also decides that such a decoder assigns its destination before every successful return.")
also("C19", "store scan on the inspection options' Form field",
     "Also decides that the byte form of the inspection options is never written outside construction.")

# ---- rules added after the round-7 seeds ----
also("C02", "authenticity rules shared with C01.R1/R3", "Also decides (shared with C01) that every accepting path passes the signature and chain verification of the endorsement whose measurements are compared.")
also("C03", "chain-check options rule shared with C01.R2", "Also decides that the verifier's chain check runs at exactly the caller's time with the caller's roots.")
also("C04", "sentinel rule on map lookups of image-supplied values", "Also decides that package ovmf never uses a zero value read from a map as the absence marker (0 is a legitimate address).")
also("C05", "flag-sensitive ESP launch-mode dispatch table", "Also decides that tdx.MRTD reaches each of the three region extractors only under its launch mode.")
also("C06", "sibling agreement of table lookup keys + structural clauses shared with C04/C05", "Also decides that all lookups into a package-level table of package tdx use the same kind of key, and imports the ordering / dispatch clauses of C04 and C05.")
also("C07", "scan of third-party callees for Must* helpers on non-constant values", "Also decides that no call from the closure enters third-party code that applies a Must* helper to a value it is given.")
also("C09", "ESP lock-pairing rule", "Also decides that a mutex taken in the verifier packages is released on every path to a return.")
also("C10", "ESP must-create rule on CreateNewSigningKeyVersion implementations", "Also decides that every key manager returns from CreateNewSigningKeyVersion successfully only after a key-creating call succeeded in that call.")
also("C13", "manifest freshness rules shared with C14.R6/R6b", "Also decides (shared with C14) that the manifest extended and written back was read from this attempt's workspace into a per-attempt object.")

# rules added after the round-7 seeds (batch 2) and the round-5 refactorings
also("C10", "ESP create-after-failure rule", "Also decides that the bootstrap / rotation sequence creates no key after one of its earlier steps failed.")
also("C11", "call-site agreement of the write gate", "Also decides that the overwrite gate of the CA store writes under the very object name it was asked about.")
also("C13", "ESP rule on workspace commits", "Also decides that a workspace is never committed with an endorsement file written under the output directory and no manifest written after it.")
also("C14", "sibling agreement of ChangeOps back ends", "Also decides that every in-repo back end commits what the attempt wrote.")
also("C15", "forward use analysis of flag addresses", "Also decides that the addresses of the DryRun / MeasurementOnly fields flow only into the flag library's own boolean binding.")
also("C16", "effects analysis of the event encoders (shared with C18.R9)", "Also decides that encoding an event leaves the event untouched, so both events of a pair carry one reference-manifest GUID.")
also("C17", "comparison events in one path-sensitive pass; stores through kept field pointers", "Policy and measurement stores need, on their own path, overwrite permission or the outcome unset/equal of the matching comparison, wherever that comparison is written.")
also("C18", "effects analysis of encoder methods", "Also decides that no encoder method of the codec packages writes through its receiver.")
also("C19", "descriptor/value cursor transfer", "Also decides that each evaluator step hands on the descriptor that belongs to the value it hands on.")
also("C20", "error discipline of refused destroys", "Also decides that a destroy request the service refuses is reported to the caller.")

# rules added after the round-8 seeds and the round-6 refactorings
also("C01", "origin rule on the CLI's root pools", "Also decides that the root-of-trust pools the CLI builds start as x509.NewCertPool (never the host store).")
also("C03", "open-flag rule on the CLI's output back end", "Also decides that the inspection commands' output files are opened truncating, so re-emitted signed pieces carry no stale tail.")
also("C04", "loop-bound rule on declared counts", "Also decides that the SEV metadata parse loop runs up to the declared section count itself, not a clamped copy.")
also("C05", "combined aliasing/write rule on section buffers", "Also decides that no write goes into storage obtained from a section buffer while section buffers share a backing array.")
also("C09", "effects analysis treating sync.Pool / sync.Map contents as shared", "Objects taken from a synchronised container count as shared between validations.")
also("C11", "open-flag rule on the local storage writer", "Also decides that the local storage back end rewrites objects wholly.")
also("C12", "ESP rule on wipeout functions", "Also decides that no production Wipeout reports success on a path on which one of its wipeout / destroy steps failed.")
also("C15", "goroutines explored as calls at the spawn point", "A goroutine started by the endorse run is checked against the same flag gates as a direct call.")
also("C18", "who-may-call rule on Reader.Read", "Also decides that no stream decoder reads a field with a single Reader.Read call (finding F21).")
also("C19", "producer whitelist for the evaluator's values", "Also decides that every value the evaluator yields is read out of the message walked, never a descriptor default.")

# rules added after the round-9 seeds and findings F22/F23
also("C06", "who-may-write rule on the request Context", "Also decides that nothing in the measurement/signing closure writes a field of the request Context.")
also("C07", "statelessness of the verification closure (shared with C09.R1/R4)", "Also decides that the verification closure keeps no state between calls, so a repeated malformed input is answered as the first time.")
also("C08", "field-based upper-bound fixpoint over refusing comparisons", "Also decides that every image-decoded field bounding a slice of the image in package ovmf is bounded from above by some refusing comparison.")
also("C10", "effects analysis of Signer.PublicKey", "Also decides that reading a key's public half writes nothing in the signer.")
also("C14", "ESP rule on read failures", "Also decides that a failed workspace read that is not 'not found' fails the attempt.")
also("C18", "EOF-acceptance rule, whole-input drain rule, affine narrowing check in constructors", "Also decides that a clean end of input is only accepted between records (F22), that whole-input decoders drain their reader, and that constructors bound constant+variable lengths below the field width (F23).")

# rules added after the round-10 seeds and the round-8 refactorings
also("C03", "dominance rule on the provenance stores (shared with C06.R13)", "Also decides that the provenance the request names is stored into the signed document on every successful path.")
also("C04", "loop-coverage rule on constant-step scans", "Also decides that a constant-step scan of a page or table does not stop one chunk early.")
also("C05", "effects analysis with standard-library destination fillers", "Writes through binary.PutUint* / io.ReadFull into package-level storage count as package-level writes.")
also("C09", "effects analysis with standard-library mutator methods", "Extending a caller's certificate pool (AddCert) counts as a write to it.")
also("C12", "loop rule on the mutation's certificates", "Also decides that every certificate a mutation carries goes through the upload gate.")
also("C13", "ESP rule on read failures (shared with C14.R8)", "Also decides that the overwrite gate's existence probe does not take a failed read for an absent file.")
also("C14", "struct fields as path-state cells", "A workspace kept in a field of an attempt record is followed through the record's methods.")
also("C16", "history rule on the bytes handed to binary parsers", "Also decides that a supplied quote reaches the binary attestation parsers without a byte-normalising step.")
also("C19", "who-may-call rule on WriteByte in the scanner", "Also decides that decoded code points are appended as text (WriteRune).")

# rules added after the round-11 seeds and finding F24
also("C06", "edge rule on the supported-count table", "Also decides that the table of all supported VMSA counts stands in for the request only when the request names no count.")
also("C07", "guarded-call rule on the dependency's certificate-table parser; type-assertion rule", "Also decides that go-sev-guest's certificate-table parser is only reached behind the 64-bit range check (F24) and that no single-result type assertion is made on an input-decided dynamic type.")
also("C08", "constant-bound rule on package-level table lookups", "Also decides that non-constant indices into package-level arrays are bounded below the array length.")
also("C10", "open-flag rule on key persistence", "Also decides that the file-backed key manager stores the key it just created (no silent keep of an existing file).")
also("C14", "ESP at-most-once rule on workspace requests", "Also decides that a workspace is requested at most once per attempt.")
also("C18", "ESP error-propagation rule", "Also decides that a codec function fails when one of its steps failed, and that errors are discarded only where the callee cannot fail.")

# rules added after the round-12 seeds and the round-9 refactorings
also("C01", "options-literal rule over the entry point's helper region", "Options built by an unexported helper of an entry point are held to the same rule: roots and verification time are the caller's.")
also("C03", "ESP rule on the measurement comparison (shared with C02.R1)", "Also decides that a launch with a named configuration is compared with the measurement listed for that configuration.")
also("C04", "stride-quotient rule (T19)", "Also decides that where page work is split into equal shares the remainder of the division is dealt with.")
also("C05", "stride-quotient rule (T19)", "Also decides that where region work is split into equal shares the remainder of the division is dealt with.")
also("C13", "value-identity rule on the manifest entry's path", "Also decides that the written file's path is computed from the very value recorded as the entry's Path.")
also("C15", "control-dependence rule on mode flags", "Also decides that no decision in the golden measurement's closure and no store to a Context field it reads depends on DryRun/MeasurementOnly.")
also("C16", "who-may-manufacture rule on evidence sources", "Also decides that the extraction and verification libraries create no getter / variable reader of their own when handed the caller's options.")
also("C17", "record fields as path-state cells; per-return type check of PEM blocks", "Decisions and keys parked in an update record are followed to where the record is applied.")
also("C19", "open-flag rule on the output back end (shared with C03.R9)", "Also decides that an existing --out file is replaced wholly.")

# rules added after the round-13 seeds and finding F26
also("C02", "dominance rule on endorsement productions", "Also decides that an endorsement other than the one the caller pinned is produced only where no endorsement was pinned.")
also("C07", "guarded-difference rule (T21)", "Also decides that a difference of two decoded values feeding a range check is taken only where the subtrahend is known to be no larger.")
also("C08", "guarded-difference rule (T21)", "Also decides that differences of image-decoded sizes used as slice bounds are taken only where the subtrahend is known to be no larger (named value exceptions listed).")
also("C11", "dominance rule on existence probes", "Also decides that the storage back ends answer 'exists' only after a successful probe.")
also("C16", "nil-test rule on optional evidence sources", "Also decides that an absent getter / variable reader / quote provider is reported, never called through (F26).")
also("C18", "who-may-call rule on content searches in decoders", "Also decides that size-prefixed fields are delimited by their size, not by their content.")

# rules added after the round-14 seeds
also("C02", "loop-exit rule on the MRTD collection", "Also decides that the TDX allow-list is collected from every endorsed row (no early exit on a match).")
also("C03", "loop-exit rule on the MRTD collection (shared with C02.R5)", "Also decides that every listed TDX measurement of the named RAM size reaches the allow-list.")
also("C05", "must-pass-through rule on the hand-off block builder", "Also decides that the parser never returns successfully without having laid out the TD hand-off block.")
also("C12", "control-dependence rule on existence probes", "Also decides that --keep_going never makes a creation gate skip its existence probe.")
also("C13", "forward must-analysis on the manifest merge", "Also decides that the merge places the new digest and path on every path.")
also("C15", "key-provenance rule on the measurement printers", "Also decides that measurement-only output is read from the document under the request's own count.")
also("C19", "guarded-difference rule with count sinks (T21) over the parser package", "Also decides that position differences feeding repeat counts, sizes and bounds are non-negative.")

# rules added after the round-15 seeds
also("C02", "control-dependence rule on the technology check", "Also decides that the SEV-SNP measurement check runs whenever SNP options were given.")
also("C06", "aliasing rule on slices of loop-overwritten variables", "Also decides that entries put into the signed document in a loop do not alias one variable.")
also("C07", "nil-test and who-may-manufacture rules on evidence sources (shared with C16.R8/R9)", "Also decides that the extraction library neither wraps nor calls through an absent evidence source.")
also("C08", "structural infallibility of discarded decoder errors (shared with C18.R13)", "Also decides that a layout decoder's error is dropped only where the decoder can fail on length alone and is given that many bytes.")
also("C10", "ESP rule on the gate's success (shared with C12.R2)", "Also decides that an object in the way of a rotation is refused by the gate itself, before the manifest write.")
also("C11", "must-pass-through rule on the upload gate", "Also decides that an upload is only reported after it went through the gate.")
also("C12", "ESP rule on the gate's success", "Also decides that the no-clobber gate reports success only after a write or under keep_going.")
also("C14", "ESP clause on returns after a successful commit", "Also decides that a landed commit is never reported as a failed attempt.")
also("C18", "exactness clause on constant range checks; structural length-only infallibility", "Also decides that encoders refuse only values that do not fit, and that discarded decoder errors are structurally impossible.")

# rules added after the round-16 seeds
also("C05", "identity rule on the bank list", "Also decides that the RAM banks reach the unaccepted-memory computation as the caller passed them.")
also("C09", "effects analysis with channel operations", "Channel sends, receives and selects on a channel shared between calls count as interference.")
also("C15", "who-may-call rule on file-system mutations in the command layer", "Also decides that the endorse command layer writes no file outside the gated version-control path.")
also("C16", "loop-state rule on the event collector", "Also decides that what is reported for an event depends on that event alone (no cross-event de-duplication).")
# seed round 17
also("C07", "length rule on slice-to-array conversions; non-zero rule on divisors", "Also decides that a slice is converted to an array only with its length established, and that no division is by a value that may be zero.")
also("C08", "length rule on slice-to-array conversions; non-zero rule on divisors", "Also decides that no decoded count or size is divided by without being known non-zero.")
also("C10", "lock pairing (may-held analysis per function)", "Also decides that every mutex taken is released on every exit, so a failed step cannot leave the authority locked for the next rotation.")
also("C11", "writer/reader agreement on the stored encoding", "Also decides that what the uploader stores under a manifest-listed name is in the encoding the reader parses.")
also("C14", "guard rule on the shared repository list", "Also decides that the primary repository joins the list of repositories only where the list was empty, so one repository is not submitted to twice.")
also("C17", "freshness of the returned object on every path", "Also decides that the derived policy is an object made in the call on every returning path, never the caller's base.")
# seed round 18
also("C01", "who-may-recover rule", "Also decides that a recovered panic is handed on as an error, so a validator cannot return nil because something inside it panicked.")
also("C07", "length rule on constant bounds of computed slices (with exact-length helper postconditions)", "Also decides that constant slice bounds on call results and field values are taken only with the length established.")
also("C11", "no unguarded deferred storage writes", "Also decides that no storage write runs from a deferred call on failure paths.")
also("C13", "representation agreement of digest keys", "Also decides that digest keys compared in the manifest merge are in one representation.")
also("C15", "must-pass-through rule on the technology guards of measurement-only mode", "Also decides that a measurement-only run looks at every technology section before it returns.")
also("C16", "who-may-manufacture rule on report measurements", "Also decides that the extraction library never makes up a measurement of the real size.")
also("C19", "provenance rule on returned storage (sync.Pool), T24/T25 over the parser", "Also decides that evaluation results do not alias pooled storage.")
# seed round 19
also("C02", "no-fallback rule on the policy derivation of the validation entry points", "Also decides that a failed policy derivation ends the validation instead of falling back to the base policy.")
also("C06", "exclusive-source clause on caller-named fields", "Also decides that changelist, commit and timestamp are signed as requested on every path.")
also("C08", "termination rule on inclusive unsigned loop bounds", "Also decides that no loop over an unsigned counter tests an unbounded inclusive bound (wrap-around non-termination).")
also("C18", "coverage rule on chunked scans (shared with C04.R11)", "Also decides that a word-at-a-time check of a fixed-layout field looks at every byte.")
also("C20", "accumulation rule on errors across listing pages", "Also decides that a failure on an earlier listing page is not overwritten by a later page.")
