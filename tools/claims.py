# Edited as rules land. claim(id, technique, text, design_ref[, note]); na(id, reason)
claim("C10", "path-sensitive event/typestate simulation (ESP) over go/ssa with interprocedural summaries",
      "Decides on every path of rotate.Key / rotate.Bootstrap (all fault positions = :fail edges of the tracked calls) that the old key is destroyed only after Finalize succeeded, that no persistent step runs after a failed step, and that a nil return implies all steps succeeded. A structural necessary condition of failure-atomicity; it does not show that the surviving state works.",
      "DESIGN.md §3 C10")
claim("C14", "ESP path simulation of the retry loop and the attempt function + CFG loop-shape rule + backward slice of the parsed manifest bytes",
      "Decides on every path of endorse.RetrySubmit and the attempt function: a further attempt only after a failure the back end marked retriable; every back edge passes a counter increment and a CommitRetries comparison with a loop exit; nil return only after a successful attempt; workspace obtained per attempt and destroyed on every failing exit; Result once and only after a successful commit; manifest re-read from the attempt's workspace. The attempt count as a number is not decided.",
      "DESIGN.md §3 C14")
claim("C15", "flag-sensitive ESP reachability of effect events + who-may-call closure scan + store/address-taken scan + flag-wiring slice",
      "Decides that no workspace/VCS effect call is reachable on any path where DryRun may be true, that no key/CA/VCS call is reachable where MeasurementOnly may be true or from the measurement computation at all, that both flags are immutable after registration and wired to the installed Context, and that printed and signed measurements come from one computation.",
      "DESIGN.md §3 C15")
claim("C11", "ESP path simulation of gcsca.Finalize (write-order automaton) + who-may-call ownership scan + effect scan of the mutation type",
      "Decides for every path of the storage-backed Finalize (every upload order, every failing write) that no object is written after the manifest, that the manifest is not written after a failed upload, that manifest entries are appended only after the gated upload of the very object they name, that only the no-clobber gate and the manifest writer write to storage and only on behalf of Finalize, and that the mutation object has no persistent effect. Object-granularity crash prefixes are exactly the positions between these write events.",
      "DESIGN.md §3 C11")
claim("C13", "ESP path simulation (existence-probe / overwrite-permission gate before endorsement writes; endorsement before manifest) + backward slices of manifest-entry fields",
      "Partial: decides the overwrite gate on every path to an endorsement-file write, that the manifest entry names the file just written and the SHA-384 of the supplied image, and file-before-manifest ordering. The four-way merge keeping path/digest uniqueness over histories is not decided. One known finding (snapshot mode writes <fw>.signed ungated).",
      "DESIGN.md §3 C13")
claim("C01", "ESP must-pass-through rules on the verification core, the chain check and every entry point enumerated by type + operand identity / access-path rules + cert-table registration shape",
      "Decides, for all paths of every function that receives roots of trust in verify, gcetcbendorsement and its CLI, that a nil result is only reachable through a successful chain verification (caller's pool and time, nil pool rejected first) and a successful PSS/SHA-256 signature check made with the verified certificate over the very payload bytes that were parsed, before any content is consumed; SNP validator registered as required. It shows no path accepts without the checks, not that the cryptography is strong.",
      "DESIGN.md §3 C01")
claim("C02", "flag-sensitive ESP acceptance rules (comparison true-edge must be passed) on verify.SNP, the validator closure, the core, SevPolicy and TdxPolicy + literal-field forwarding slices keyed by public flag names",
      "Decides on all paths that acceptance needs the true edge of a byte comparison between the report measurement and the value endorsed for the named configuration (keyed lookup; failed presence test never accepts), that the length gate precedes verification, that an expected digest is compared, that derived policies carry the measurement / a non-empty MRTD allow-list of the named configuration, and that the named count / RAM size is forwarded from CLI flags and library options. Byte-level equality and the external policy engines are trusted.",
      "DESIGN.md §3 C02")
claim("C09", "effect analysis with pointer provenance over the validator closures' call closure (no write to any object reachable from captured/caller options or globals) + global-store scan",
      "Decides for every interleaving (by absence of shared writes, under the Go memory model) that validator closures and their makers write only memory allocated during the call; callers hand makers fresh options; no package-level state in the verifier packages is written after init. External libraries' internal state is trusted.",
      "DESIGN.md §3 C09")
claim("C17", "effect/provenance analysis (writes only to clones and literals) + field-write whitelist scan + flag-sensitive ESP gating of policy stores + provenance slices of placed values",
      "Decides that SevPolicy/TdxPolicy write only objects allocated in the call, that only the documented policy fields are ever written (key lists extended, body policy created only when absent), that Policy/Measurement/AnyMrTd are stored only behind overwrite permission or a successful conflict check whose nil result needs unset-or-equal base values, that a too-low SVN cannot succeed without overwrite, and that placed values come from the endorsement. Field-by-field value equality is not decided.",
      "DESIGN.md §3 C17")
PENDING = "static rules designed in DESIGN.md §3 but not implemented yet in this revision; not claimed until the rule set lands"
for p in ["C03","C04","C05","C06","C07","C08","C12","C16","C18","C19","C20"]:
    na(p, PENDING)
