#!/bin/bash
# try_seed.sh <seed-dir> <props...>: apply the seeded patch to /repo, run the checks, undo.
d=$1; shift
[ -n "$(git -C /repo status --porcelain)" ] && { echo "/repo not clean"; exit 4; }
git -C /repo apply $d/patch.diff || exit 3
for p in "$@"; do
  /verif/bin/vcheck -prop $p -tier quick -no-evidence 2>&1 | grep -E "^VIOLATION|^  \[violated\]|^  \[undecided\]|tier=" | cut -c1-330
done
git -C /repo checkout -- . ; git -C /repo status --short
