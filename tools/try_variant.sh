#!/bin/bash
# try_variant.sh <variant.json> <prop> [vcheck flags]: analyse /repo with one variant spec {file, old, new} applied in memory.
v=$1; p=$2; shift 2
ov=$(mktemp /tmp/ov-XXXX.json)
python3 - "$v" "$ov" <<'P' || exit 2
import json,sys
m=json.load(open(sys.argv[1])); path='/repo/'+m['file']; src=open(path).read()
assert src.count(m['old'])==1, "old text occurs %d times"%src.count(m['old'])
src=src.replace(m['old'],m['new'])
for e in m.get('edits',[]):
    assert src.count(e['old'])==1, "edit text occurs %d times"%src.count(e['old'])
    src=src.replace(e['old'],e['new'])
json.dump({path: src}, open(sys.argv[2],'w'))
P
${VCHECK_BIN:-/verif/bin/vcheck} -prop $p -no-evidence -overlay $ov "$@"; rc=$?
rm -f $ov; exit $rc
