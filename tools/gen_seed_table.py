#!/usr/bin/env python3
"""gen_seed_table.py: markdown table of all seeded changes from seeded/*/meta.json (for DESIGN.md 7.4)."""
import json, os, re, glob
rows=[]
def key(d):
    m=re.match(r'C(\d+)-(\d+)',d); return (int(m.group(1)),int(m.group(2)))
for d in sorted((x for x in os.listdir('/verif/seeded') if re.match(r'^C\d+-\d+$',x)), key=key):
    mp='/verif/seeded/%s/meta.json'%d
    if not os.path.exists(mp): continue
    m=json.load(open(mp))
    prop=m.get('property',d.split('-')[0])
    checks=m.get('checks',[])
    exp=m.get('expect',{})
    own = exp.get(prop,'')
    own = re.sub(r'\s+',' ',own)
    def short(e):
        # rule id only
        mm=re.match(r'^((?:ESP )?[A-Za-z0-9/.]+)',e.strip())
        r=mm.group(1) if mm else e[:20]
        if r=='ESP':
            mm=re.match(r'^ESP (?:[\w./*()]+:)?(R\d+\w*)',e.strip())
            r=mm.group(1) if mm else 'ESP'
        return r
    caught=[]
    for p in checks:
        caught.append('%s.%s'%(p,short(exp.get(p,''))))
    summary=m.get('summary','').replace('|','/')
    imb=m.get('initially_missed_by') or []
    if 'initially' in m and not imb:
        init=m['initially']
    elif imb:
        init='missed' if any(str(x).startswith(prop) for x in imb) else 'caught (a related check missed it)'
    else:
        init='caught'
    now='yes' if prop in checks else ('**no**' if checks==[] else 'other check only')
    rows.append('| %s | %s | %s | %s | %s |'%(d, summary[:150], ', '.join(caught) or '—', init, now))
print('| seed | change | reported by (check.rule of the first violated obligation) | when it arrived | own check reports it now |')
print('|---|---|---|---|---|')
print('\n'.join(rows))
