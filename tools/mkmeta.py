#!/usr/bin/env python3
"""mkmeta.py: (re)generate /verif/seeded/<id>/meta.json from NOTES.md, EVAL.txt (state at ingestion) and MATRIX.txt
(all twenty checks against the change, tools/seed_matrix.sh). Hand-written fields of an existing meta.json are kept."""
import json, os, re, glob, sys
root='/verif/seeded'
ids=sys.argv[1:] or sorted(d for d in os.listdir(root) if re.match(r'^C\d+-\d+$', d))
for sid in ids:
    d=os.path.join(root,sid); prop=sid.split('-')[0]
    mp=os.path.join(d,'meta.json')
    meta=json.load(open(mp)) if os.path.exists(mp) else {}
    meta.setdefault('property',prop)
    notes=os.path.join(d,'NOTES.md')
    if 'summary' not in meta and os.path.exists(notes):
        t=open(notes).readline().strip().lstrip('# ').strip()
        t=re.sub(r'^(Seed(ed)? (defect|change)?\s*)?%s\s*[:\-]?\s*'%re.escape(sid),'',t,flags=re.I).strip() or t
        meta['summary']=t
    # state at ingestion: did the seed's own check fire?
    ev=os.path.join(d,'EVAL.txt')
    if os.path.exists(ev) and 'initially' not in meta:
        txt=open(ev).read()
        m=re.search(r'== vcheck %s with change:\n(.*?)(?=\n== vcheck|\Z)'%prop, txt, re.S)
        if m:
            meta['initially']='caught' if 'VIOLATION' in m.group(1) else 'missed'
        meta['confirmed']='tools/eval_seed.sh: applies to HEAD, builds, %s, demo fails with and passes without the change (EVAL.txt)'%('596/596 stable tests pass with the change' if '596/596' in txt else 'suite: see EVAL.txt')
    mx=os.path.join(d,'MATRIX.txt')
    if os.path.exists(mx):
        checks=[]; expect={}
        for l in open(mx):
            l=l.rstrip('\n')
            m=re.match(r'^(C\d+) (\d+) \| (.*)$', l)
            if not m: continue
            p,first=m.group(1),m.group(3)
            checks.append(p)
            e=re.split(r' \S+\.go:\d+: | -: | : instance floor', first)[0].strip()
            expect[p]=e[:160]
        meta['checks']=checks; meta['expect']=expect
        meta['detected_now']= prop in checks
    meta['files']=sorted(f for f in os.listdir(d) if f not in ('meta.json',))
    json.dump(meta,open(mp,'w'),indent=1,ensure_ascii=False)
    print(sid, meta.get('initially','?'), '->', ' '.join(meta.get('checks',[])) or '-')
