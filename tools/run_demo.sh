#!/bin/bash
# run_demo.sh Fnn [Fnn...] : runs the confirmed-defect demonstrations in /verif/findings_demos against
# /repo HEAD in a scratch worktree (removed afterwards). A demo that FAILS shows the defect is present.
export GOPROXY=off GOSUMDB=off GOTOOLCHAIN=local GOFLAGS=
wt=$(mktemp -d /tmp/wt-demo-XXXX); rmdir $wt
git -C /repo worktree add -q --detach $wt HEAD || exit 2
for f in "$@"; do
  d=/verif/findings_demos/$f
  for t in $d/*_test.go; do
    # package dir: from the RESULT.txt command line, or DIR file
    if [ -f $d/DIR ]; then dir=$(cat $d/DIR); else dir=$(grep -o 'go test [^ ]*\./[^ ]*' $d/RESULT.txt | head -1 | sed 's/.*\.\///; s/\/\.\.\.$//; s/\/$//'); fi
    [ -f "$d/$(basename $t).DIR" ] && dir=$(cat "$d/$(basename $t).DIR")
    cp $t $wt/$dir/
    name=$(grep -o 'func Test[A-Za-z0-9_]*' $t | head -1 | sed 's/func //')
    echo "== $f $(basename $t) in $dir"
    (cd $wt/$dir && go test -count=1 -run 'TestDemo|'"$name" . 2>&1 | tail -6)
    rm -f $wt/$dir/$(basename $t)
  done
done
git -C /repo worktree remove --force $wt
