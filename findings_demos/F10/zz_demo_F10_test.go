package verify_test

import (
	"bytes"
	"crypto/x509"
	"sync"
	"testing"
	"time"

	epb "github.com/google/gce-tcb-verifier/proto/endorsement"
	"github.com/google/gce-tcb-verifier/verify"
	spb "github.com/google/go-sev-guest/proto/sevsnp"
	"google.golang.org/protobuf/proto"
	"google.golang.org/protobuf/types/known/timestamppb"
)

func attestationWith(b byte) *spb.Attestation {
	return &spb.Attestation{Report: &spb.Report{Measurement: bytes.Repeat([]byte{b}, 48)}}
}

// The closure returned by SNPValidateFunc is installed once in go-sev-guest's CertTableOptions and
// may be invoked for many attestations. It must not write per-call state into the caller's Options.
func TestDemoF10ValidateFuncMutatesSharedOptions(t *testing.T) {
	opts := &verify.Options{
		SNP:          &verify.SNPOptions{},
		RootsOfTrust: x509.NewCertPool(),
		Now:          time.Now(),
	}
	validate := verify.SNPValidateFunc(opts)
	// Any endorsement will do (a Timestamp is present only to steer clear of defect F6); the write
	// to the shared options happens before the endorsement is even parsed.
	golden, _ := proto.Marshal(&epb.VMGoldenMeasurement{Timestamp: timestamppb.New(time.Unix(1, 0))})
	endorsement, _ := proto.Marshal(&epb.VMLaunchEndorsement{SerializedUefiGolden: golden})
	_ = validate(attestationWith(0xAA), endorsement) // error irrelevant (unsigned endorsement)
	if opts.SNP.Measurement != nil {
		t.Errorf("caller's opts.SNP.Measurement was overwritten by the validate call: %x...",
			opts.SNP.Measurement[:4])
	}
	// Run with -race: two verifications sharing one validate func race on opts.SNP.Measurement, so
	// one attestation may be compared against the other's measurement.
	var wg sync.WaitGroup
	for _, b := range []byte{0x11, 0x22} {
		wg.Add(1)
		go func(b byte) {
			defer wg.Done()
			for i := 0; i < 100; i++ {
				_ = validate(attestationWith(b), endorsement)
			}
		}(b)
	}
	wg.Wait()
}
