package gcetcbendorsement

import (
	"context"
	"crypto/x509"
	"testing"
	"time"

	epb "github.com/google/gce-tcb-verifier/proto/endorsement"
	"github.com/google/gce-tcb-verifier/verify"
	"github.com/google/go-tdx-guest/abi"
	tpb "github.com/google/go-tdx-guest/proto/tdx"
	"github.com/google/go-tdx-guest/testing/testdata"
	tpmpb "github.com/google/go-tpm-tools/proto/attest"
	"google.golang.org/protobuf/proto"
	"google.golang.org/protobuf/types/known/timestamppb"
)

// An endorsement that nobody signed: garbage signature, no signer certificate at all.
func TestDemoF1TdxValidateNeverChecksEndorsementSignature(t *testing.T) {
	q, err := abi.QuoteToProto(testdata.RawQuote)
	if err != nil {
		t.Fatal(err)
	}
	quote := q.(*tpb.QuoteV4)
	attestation, err := proto.Marshal(&tpmpb.Attestation{
		TeeAttestation: &tpmpb.Attestation_TdxAttestation{TdxAttestation: quote}})
	if err != nil {
		t.Fatal(err)
	}
	// The attacker self-makes a "golden measurement" that lists the quote's own MRTD.
	golden, _ := proto.Marshal(&epb.VMGoldenMeasurement{
		Timestamp: timestamppb.New(time.Date(2024, 1, 1, 0, 0, 0, 0, time.UTC)),
		Tdx: &epb.VMTdx{Measurements: []*epb.VMTdx_Measurement{
			{RamGib: 4, Mrtd: quote.GetTdQuoteBody().GetMrTd()}}},
	})
	forged := &epb.VMLaunchEndorsement{SerializedUefiGolden: golden, Signature: []byte("garbage")}

	roots := x509.NewCertPool() // trusts nobody
	now := time.Now()
	// Sanity: the repo's own endorsement verifier rejects this endorsement.
	if err := verify.EndorsementProto(forged, &verify.Options{RootsOfTrust: roots, Now: now}); err == nil {
		t.Fatal("verify.EndorsementProto accepted the forged endorsement")
	} else {
		t.Logf("verify.EndorsementProto correctly rejects it: %v", err)
	}
	err = TdxValidate(context.Background(), attestation, &TdxValidateOptions{
		Endorsement:  forged,
		RootsOfTrust: roots,
		Now:          now,
	})
	if err == nil {
		t.Errorf("TdxValidate accepted a quote against an unsigned/forged endorsement " +
			"(RootsOfTrust is an empty pool); want a signature/certificate error")
	}
}
