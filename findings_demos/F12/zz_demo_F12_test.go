package certs_test

import (
	"context"
	"crypto/x509"
	"math/big"
	"testing"
	"time"

	"github.com/google/gce-tcb-verifier/keys"
	"github.com/google/gce-tcb-verifier/rotate"
	"github.com/google/gce-tcb-verifier/sign/memca"
	"github.com/google/gce-tcb-verifier/testing/nonprod/memkm"
	"github.com/google/gce-tcb-verifier/testing/testsign"
)

func TestDemoF12RotatedCertKeepsOldCertificateSerial(t *testing.T) {
	ctx0 := context.Background()
	ca := memca.Create()
	s, err := testsign.MakeSigner(ctx0, &testsign.Options{
		Now: time.Now(), CA: ca,
		Root:              testsign.KeyInfo{CommonName: "rootCn", KeyVersionName: "root"},
		PrimarySigningKey: testsign.KeyInfo{CommonName: "signerCn", KeyVersionName: "primarySigningKey"},
	})
	if err != nil {
		t.Fatal(err)
	}
	oldDER, err := ca.Certificate(ctx0, "primarySigningKey")
	if err != nil {
		t.Fatal(err)
	}
	oldCert, _ := x509.ParseCertificate(oldDER)

	ctx := keys.NewContext(ctx0, &keys.Context{
		Signer: s, CA: ca, Manager: &memkm.T{Signer: s}, Random: testsign.SignerRand()})
	newSerial := big.NewInt(7777)
	ctx = rotate.NewSigningKeyContext(ctx, &rotate.SigningKeyContext{
		SigningKeyCommonName: "rotatedCn", SigningKeySerial: newSerial, Now: time.Now()})
	newName, err := rotate.Key(ctx)
	if err != nil {
		t.Fatal(err)
	}
	newDER, err := ca.Certificate(ctx0, newName)
	if err != nil {
		t.Fatal(err)
	}
	newCert, _ := x509.ParseCertificate(newDER)
	t.Logf("old cert: serial=%v subject=%q issuer=%q", oldCert.SerialNumber, oldCert.Subject, oldCert.Issuer)
	t.Logf("new cert: serial=%v subject=%q issuer=%q", newCert.SerialNumber, newCert.Subject, newCert.Issuer)
	if newCert.Subject.SerialNumber != newSerial.String() {
		t.Fatalf("subject serial = %q, want %v", newCert.Subject.SerialNumber, newSerial)
	}
	// "The certificate serial number is the same as the subject's" (sign/ops/certificates.go).
	if newCert.SerialNumber.Cmp(newSerial) != 0 {
		t.Errorf("rotated certificate SerialNumber = %v, want %v (the requested SigningKeySerial)",
			newCert.SerialNumber, newSerial)
	}
	// RFC 5280 4.1.2.2: serial numbers must be unique per issuer.
	if newCert.SerialNumber.Cmp(oldCert.SerialNumber) == 0 && newCert.Issuer.String() == oldCert.Issuer.String() {
		t.Errorf("issuer %q issued two different certificates with the same serial number %v",
			newCert.Issuer, newCert.SerialNumber)
	}
}
