package gcetcbendorsement

import (
	"bytes"
	"context"
	"testing"

	epb "github.com/google/gce-tcb-verifier/proto/endorsement"
	"github.com/google/go-tdx-guest/abi"
	tpb "github.com/google/go-tdx-guest/proto/tdx"
	"github.com/google/go-tdx-guest/testing/testdata"
	tpmpb "github.com/google/go-tpm-tools/proto/attest"
	"google.golang.org/protobuf/proto"
)

func TestDemoF2TdxPolicyNoMatchingRAMRowMeansNoMRTDConstraint(t *testing.T) {
	// The endorsement only covers 4 GiB and 8 GiB shapes, with MRTDs unrelated to the quote below.
	golden, _ := proto.Marshal(&epb.VMGoldenMeasurement{Tdx: &epb.VMTdx{
		Measurements: []*epb.VMTdx_Measurement{
			{RamGib: 4, Mrtd: bytes.Repeat([]byte{0x44}, 48)},
			{RamGib: 8, Mrtd: bytes.Repeat([]byte{0x88}, 48)},
		}}})
	endorsement := &epb.VMLaunchEndorsement{SerializedUefiGolden: golden}

	// The caller says the VM has 999 GiB: no row matches.
	policy, err := TdxPolicy(context.Background(), endorsement, &TdxPolicyOptions{RAMGiB: 999})
	if err == nil && len(policy.GetTdQuoteBodyPolicy().GetAnyMrTd()) == 0 {
		t.Errorf("TdxPolicy(RAMGiB=999) = policy with empty any_mr_td (%v), nil error; "+
			"want an error since no endorsed measurement matches", policy)
	}

	// Consequence: a quote with a completely unendorsed MRTD validates.
	q, err := abi.QuoteToProto(testdata.RawQuote)
	if err != nil {
		t.Fatal(err)
	}
	attestation, _ := proto.Marshal(&tpmpb.Attestation{
		TeeAttestation: &tpmpb.Attestation_TdxAttestation{TdxAttestation: q.(*tpb.QuoteV4)}})
	// Control: with RAMGiB=4 the unendorsed MRTD is rejected as it should be.
	if err := TdxValidate(context.Background(), attestation,
		&TdxValidateOptions{Endorsement: endorsement, ExpectedRAMGiB: 4}); err == nil {
		t.Fatal("control failed: quote accepted with RAMGiB=4")
	} else {
		t.Logf("control (RAMGiB=4) rejects the quote: %v", err)
	}
	if err := TdxValidate(context.Background(), attestation,
		&TdxValidateOptions{Endorsement: endorsement, ExpectedRAMGiB: 999}); err == nil {
		t.Errorf("TdxValidate(ExpectedRAMGiB=999) accepted a quote whose MRTD is not in the endorsement")
	}
}
