package endorse

import (
	"context"
	"errors"
	"math"
	"testing"
)

// F25: RetrySubmit decides "no retries left" with `remain := ec.CommitRetries - tries; if remain < 0`. For the most
// negative budget the subtraction wraps (MinInt - 1 = MaxInt), remain is never negative and a persistently
// retriable failure is retried without bound. C14 bounds the attempts by retries+1 "for every retry budget including
// zero and negative": a negative budget means one attempt.
type f25VCS struct{ attempts int }

var errF25 = errors.New("conflict")

func (v *f25VCS) GetChangeOps(context.Context) (ChangeOps, error) {
	v.attempts++
	if v.attempts > 5 {
		panic("F25: more than 5 attempts for a negative retry budget")
	}
	return nil, errF25
}
func (v *f25VCS) RetriableError(error) bool                        { return true }
func (v *f25VCS) Result(any, string)                               {}
func (v *f25VCS) ReleasePath(_ context.Context, p string) string   { return p }

func TestDemoF25(t *testing.T) {
	for _, budget := range []int{-1, -3, math.MinInt + 1, math.MinInt} {
		vcs := &f25VCS{}
		ctx := NewContext(context.Background(), &Context{VCS: vcs, CommitRetries: budget})
		func() {
			defer func() {
				if r := recover(); r != nil {
					t.Errorf("budget %d: %v", budget, r)
				}
			}()
			err := RetrySubmit(ctx, func(context.Context, ChangeOps) (string, error) { return "", nil })
			if !errors.Is(err, ErrNoRetries) {
				t.Errorf("budget %d: RetrySubmit = %v, want ErrNoRetries", budget, err)
			}
		}()
		if vcs.attempts != 1 {
			t.Errorf("budget %d: %d attempts, want 1", budget, vcs.attempts)
		}
	}
}
