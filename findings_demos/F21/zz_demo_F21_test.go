package eventlog

import (
	"bufio"
	"bytes"
	"testing"
	"testing/iotest"

	"github.com/google/go-cmp/cmp"
)

// F21: the event-log decoders read fixed-size fields (SHA-1 digest of the header event, tagged digests, EFI GUIDs)
// with ONE Reader.Read call and reject the log when that call returns fewer bytes than asked. io.Reader allows a
// short read with a nil error; a buffered reader returns one whenever a field straddles its buffer boundary, a
// pipe or socket whenever the writer's chunks end inside a field. A log that encodes a value is then refused
// depending on where its bytes happen to fall, not on what they are.
func TestDemoF21(t *testing.T) {
	log := &CryptoAgileLog{
		Header: TCGPCClientPCREvent{PCRIndex: 2, EventType: 5, EventData: TCGEventData{Event: &UnknownEvent{Data: []byte("foo")}}},
	}
	for i := 0; i < 200; i++ {
		log.Events = append(log.Events, &TCGPCREvent2{
			PCRIndex: 3, EventType: 7,
			Digests: Uint32SizedArrayT[*TaggedDigest]{Array: []*TaggedDigest{
				{AlgID: 4, Digest: bytes.Repeat([]byte{byte(i)}, 20)},
				{AlgID: 0xb, Digest: bytes.Repeat([]byte{byte(i)}, 32)},
			}},
			EventData: TCGEventData{Event: &UnknownEvent{Data: []byte("foo")}},
		})
	}
	var enc bytes.Buffer
	if err := log.Marshal(&enc); err != nil {
		t.Fatal(err)
	}
	whole := &CryptoAgileLog{}
	if err := whole.Unmarshal(bytes.NewReader(enc.Bytes())); err != nil {
		t.Fatalf("decoding from a bytes.Reader: %v", err)
	}
	t.Run("bufio", func(t *testing.T) {
		got := &CryptoAgileLog{}
		if err := got.Unmarshal(bufio.NewReaderSize(bytes.NewReader(enc.Bytes()), 4096)); err != nil {
			t.Fatalf("the same %d bytes through a bufio.Reader are refused: %v", enc.Len(), err)
		}
		if diff := cmp.Diff(whole, got); diff != "" {
			t.Errorf("decoded log differs: %s", diff)
		}
	})
	t.Run("short reads", func(t *testing.T) {
		got := &CryptoAgileLog{}
		if err := got.Unmarshal(iotest.HalfReader(bytes.NewReader(enc.Bytes()))); err != nil {
			t.Fatalf("the same bytes from a reader that returns short reads (as io.Reader allows) are refused: %v", err)
		}
	})
}
