package eventlog

import (
	"bytes"
	"testing"
)

// F22: CryptoAgileLog.Unmarshal ends the log on any error that wraps io.EOF. binary.Read returns a bare io.EOF when
// the input ends exactly before a field, so a log cut at a field boundary INSIDE an event (after its PCRIndex, after
// its EventType, after its digest list) is accepted with the partial event silently dropped, while every other cut
// is refused. An accepted byte string must re-encode to itself (C18); these re-encode to fewer bytes.
func TestDemoF22(t *testing.T) {
	log := &CryptoAgileLog{
		Header: TCGPCClientPCREvent{PCRIndex: 2, EventType: 5, EventData: TCGEventData{Event: &UnknownEvent{Data: []byte("foo")}}},
	}
	var boundaries []int
	var enc bytes.Buffer
	if err := log.Header.Marshal(&enc); err != nil {
		t.Fatal(err)
	}
	boundaries = append(boundaries, enc.Len())
	for i := 0; i < 3; i++ {
		evt := &TCGPCREvent2{
			PCRIndex: 3, EventType: 7,
			Digests: Uint32SizedArrayT[*TaggedDigest]{Array: []*TaggedDigest{
				{AlgID: 4, Digest: bytes.Repeat([]byte{byte(i + 1)}, 20)},
			}},
			EventData: TCGEventData{Event: &UnknownEvent{Data: []byte("foo")}},
		}
		if err := evt.Marshal(&enc); err != nil {
			t.Fatal(err)
		}
		boundaries = append(boundaries, enc.Len())
	}
	full := enc.Bytes()
	isBoundary := map[int]bool{}
	for _, b := range boundaries {
		isBoundary[b] = true
	}
	for cut := boundaries[0]; cut <= len(full); cut++ {
		got := &CryptoAgileLog{}
		err := got.Unmarshal(bytes.NewReader(full[:cut]))
		if isBoundary[cut] {
			if err != nil {
				t.Errorf("log cut at the event boundary %d refused: %v", cut, err)
			}
			continue
		}
		if err == nil {
			var re bytes.Buffer
			_ = got.Marshal(&re)
			t.Errorf("log cut at byte %d (inside an event) accepted with %d events; it re-encodes to %d bytes", cut, len(got.Events), re.Len())
		}
	}
}
