package extract

import (
	"encoding/binary"
	"testing"

	"github.com/google/gce-tcb-verifier/extract/extractsev"
	"github.com/google/go-sev-guest/abi"
)

// F24: go-sev-guest v0.13.0 (*abi.CertTable).Unmarshal checks a header entry's byte range with
// `entry.Offset+entry.Length > uint32(len(certs))` in 32-bit arithmetic. Offset 0xFFFFFFF0 + length 0x20 wraps to
// 0x10, passes, and the copy slices certs[0xFFFFFFF0:0x10]: a panic on bytes the peer controls, reached from
// extractsev.FromCertTable and from extract.Attestation (raw "report || certs" and bare certificate table forms).
func certTableWithEntry(offset, length uint32) []byte {
	table := make([]byte, 0x60)
	table[0] = 0x63 // a non-zero GUID
	binary.LittleEndian.PutUint32(table[16:], offset)
	binary.LittleEndian.PutUint32(table[20:], length)
	// second header entry all zero: terminator
	return table
}

func noPanic(t *testing.T, what string, f func() error) {
	t.Helper()
	defer func() {
		if r := recover(); r != nil {
			t.Errorf("%s panicked on a malformed certificate table: %v", what, r)
		}
	}()
	if err := f(); err == nil {
		t.Errorf("%s accepted a certificate table whose entry lies outside the table", what)
	}
}

func TestDemoF24(t *testing.T) {
	bad := certTableWithEntry(0xFFFFFFF0, 0x20)
	noPanic(t, "extractsev.FromCertTable", func() error { _, err := extractsev.FromCertTable(bad); return err })
	noPanic(t, "extract.Attestation(bare certificate table)", func() error { _, err := Attestation(bad); return err })
	raw := append(make([]byte, abi.ReportSize), bad...)
	binary.LittleEndian.PutUint32(raw[0:], 2)        // report version
	binary.LittleEndian.PutUint32(raw[0x34:], 1)     // signature algo: ECDSA P-384 with SHA-384
	binary.LittleEndian.PutUint64(raw[0x08:], 1<<17) // policy: reserved bit 17 must be 1
	noPanic(t, "extract.Attestation(report || certificate table)", func() error { _, err := Attestation(raw); return err })
}
