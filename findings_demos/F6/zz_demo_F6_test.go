package verify_test

import (
	"crypto/x509"
	"testing"
	"time"

	epb "github.com/google/gce-tcb-verifier/proto/endorsement"
	"github.com/google/gce-tcb-verifier/verify"
	"google.golang.org/protobuf/proto"
)

// Untrusted input: an endorsement whose golden measurement carries no timestamp (including the
// completely empty endorsement, or zero bytes) must be rejected with an error, never panic.
func TestDemoF6EndorsementWithoutTimestampPanics(t *testing.T) {
	opts := &verify.Options{RootsOfTrust: x509.NewCertPool(), Now: time.Now()}
	golden, _ := proto.Marshal(&epb.VMGoldenMeasurement{ClSpec: 1, Digest: []byte("x")})
	noTimestamp, _ := proto.Marshal(&epb.VMLaunchEndorsement{
		SerializedUefiGolden: golden, Signature: []byte("unsigned")})
	for name, input := range map[string][]byte{"no timestamp": noTimestamp, "zero-length input": nil} {
		t.Run(name, func(t *testing.T) {
			defer func() {
				if r := recover(); r != nil {
					t.Errorf("verify.Endorsement panicked on untrusted input: %v", r)
				}
			}()
			if err := verify.Endorsement(input, opts); err == nil {
				t.Errorf("verify.Endorsement accepted an unsigned endorsement")
			} else {
				t.Logf("rejected with error (good): %v", err)
			}
		})
	}
}
