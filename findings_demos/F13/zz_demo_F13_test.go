package endorse

import (
	"context"
	"regexp"
	"runtime/debug"
	"testing"

	"github.com/google/gce-tcb-verifier/keys"
	epb "github.com/google/gce-tcb-verifier/proto/endorsement"
)

// With DryRun=true nothing may be written to version control, and the commit phase must simply
// succeed (the code has explicit "dry run: would write manifest" handling). commitEndorsement is
// exactly what VirtualFirmware calls after signing.
func demoF13(t *testing.T, snapshotDir string) {
	defer func() {
		if r := recover(); r != nil {
			t.Errorf("dry run panicked: %v\nframes: %q", r,
				regexp.MustCompile(`endorse\.[a-zA-Z]+\(`).FindAllString(string(debug.Stack()), 6))
		}
	}()
	vcs := newFakeVcs()
	c := &Context{
		Image:       []byte("image"),
		ImageName:   "uefi.fd",
		VCS:         vcs,
		OutDir:      "a/b",
		SnapshotDir: snapshotDir,
		DryRun:      true,
	}
	ctx := NewContext(keys.NewContext(context.Background(), &keys.Context{Random: ones}), c)
	endorsement := &epb.VMLaunchEndorsement{SerializedUefiGolden: []byte("golden")}
	if err := commitEndorsement(ctx, endorsement); err != nil {
		t.Errorf("commitEndorsement in dry-run mode = %v, want nil", err)
	}
	if len(vcs.files) != 0 {
		t.Errorf("dry run wrote files: %v", vcs.files)
	}
}

func TestDemoF13DryRunManifestMode(t *testing.T) { demoF13(t, "") }
func TestDemoF13DryRunSnapshotMode(t *testing.T) { demoF13(t, "snap") }
