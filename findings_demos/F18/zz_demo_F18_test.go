package certs_test

import (
	"context"
	"math/big"
	"testing"
	"time"

	"github.com/google/gce-tcb-verifier/rotate"
	"github.com/google/gce-tcb-verifier/sign/memca"
	sops "github.com/google/gce-tcb-verifier/sign/ops"
	styp "github.com/google/gce-tcb-verifier/sign/types"
	"github.com/google/gce-tcb-verifier/testing/nonprod/certs"
	"github.com/google/gce-tcb-verifier/testing/testsign"
)

func TestDemoF18RetemplatedRootGetsSigningKeyLifetime(t *testing.T) {
	ctx0 := context.Background()
	ca := memca.Create()
	s, err := testsign.MakeSigner(ctx0, &testsign.Options{
		Now: time.Now(), CA: ca,
		Root:              testsign.KeyInfo{CommonName: "rootCn", KeyVersionName: "root"},
		PrimarySigningKey: testsign.KeyInfo{CommonName: "signerCn", KeyVersionName: "primarySigningKey"},
	})
	if err != nil {
		t.Fatal(err)
	}
	rootCert, err := sops.IssuerCertFromBundle(ctx0, ca, "root")
	if err != nil {
		t.Fatal(err)
	}
	day := 24 * time.Hour
	t.Logf("existing root cert: IsCA=%v lifetime=%d days", rootCert.IsCA, rootCert.NotAfter.Sub(rootCert.NotBefore)/day)

	now := time.Date(2024, 1, 1, 0, 0, 0, 0, time.UTC)
	ctx := rotate.NewBootstrapContext(ctx0, &rotate.BootstrapContext{
		RootKeyCommonName: "newRootCn", RootKeySerial: big.NewInt(5), Now: now,
		SigningKeyCommonName: "sk", SigningKeySerial: big.NewInt(6)})
	// This is what memkm/localkm's CertificateTemplate(issuer=nil) does when a root cert exists.
	tmpl, err := certs.TemplateFromCert(ctx, rootCert, s.Keys["root"].Public())
	if err != nil {
		t.Fatal(err)
	}
	gotDays := int(tmpl.NotAfter.Sub(tmpl.NotBefore) / day)
	if !tmpl.IsCA {
		t.Fatalf("template is not a CA")
	}
	if gotDays != styp.RootValidDays {
		t.Errorf("re-templated ROOT certificate is valid for %d days (= SignValidDays %d), want RootValidDays %d",
			gotDays, styp.SignValidDays, styp.RootValidDays)
	}
}
