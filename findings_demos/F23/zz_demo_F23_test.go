package abi

import (
	"bytes"
	"testing"

	"github.com/google/uuid"
)

// F23: MaxGUIDHOBDataSize is 0x10000-24 = 65512, but HobLength is a uint16 and 24+65512 = 65536. For 65505..65512
// bytes of data CreateEFIHOBGUID returns no error and a HOB whose HobLength wrapped to 0 (only WriteTo refuses it
// afterwards), and SP800155Event3.MarshalToBytes promises such an event "fits an EFI_HOB_GUID_TYPE".
func TestDemoF23(t *testing.T) {
	for _, n := range []int{65496, 65504, 65505, 65512} {
		hob, err := CreateEFIHOBGUID(uuid.Nil, make([]byte, n))
		if err != nil {
			continue // refused: fine
		}
		if int(hob.Header.HobLength) != SizeofHOBGUID+len(hob.Data) {
			t.Errorf("CreateEFIHOBGUID(%d bytes) succeeded with HobLength %d for %d bytes of header+data", n, hob.Header.HobLength, SizeofHOBGUID+len(hob.Data))
			continue
		}
		var w bytes.Buffer
		if _, err := hob.WriteTo(&w); err != nil {
			t.Errorf("CreateEFIHOBGUID(%d bytes) succeeded but the HOB cannot be written: %v", n, err)
		}
	}
}
