package parsepath

import (
	"testing"

	pb "github.com/google/gce-tcb-verifier/gcetcbendorsement/parsepath/testmessage"
)

// Test.strkeymap is map<string, Nested>; Nested has intfield=1, stringfield=2, bytesfield=3,
// nested=4. Every field of a map entry's message value must be addressable.
func TestDemoF16FieldOfMessageValuedMapEntry(t *testing.T) {
	m := &pb.Test{Strkeymap: map[string]*pb.Test_Nested{"k": {
		Intfield: 7, Stringfield: "s", Bytesfield: []byte("bytes"),
		Nested: &pb.Test{Int32Repeats: []int32{42}},
	}}}
	for _, tc := range []struct{ path, want string }{
		{`strkeymap["k"].intfield`, "7"},       // field #1: collides with map-entry "key" (#1)
		{`strkeymap["k"].stringfield`, "s"},    // field #2: collides with map-entry "value" (#2)
		{`strkeymap["k"].bytesfield`, "bytes"}, // field #3: no such field in the synthetic map entry
		{`strkeymap["k"].nested.int32repeats[0]`, "42"}, // field #4
		{`int32keymap[5].int32repeats[0]`, "9"}, // value type Test, field #3
	} {
		m.Int32Keymap = map[int32]*pb.Test{5: {Int32Repeats: []int32{9}}}
		p, err := ParsePath(m.ProtoReflect().Descriptor(), tc.path)
		if err != nil {
			t.Fatalf("ParsePath(%q) = %v", tc.path, err)
		}
		vs, err := PathValues(p, m)
		if err != nil {
			t.Errorf("PathValues(%s) = %v, want value %q", tc.path, err, tc.want)
			continue
		}
		last := vs.Index(-1).Value
		got := last.String()
		if b, ok := last.Interface().([]byte); ok {
			got = string(b)
		}
		if got != tc.want {
			t.Errorf("PathValues(%s) = %q, want %q", tc.path, got, tc.want)
		} else {
			t.Logf("PathValues(%s) = %q ok", tc.path, got)
		}
	}
}
