package gcpkms

import (
	"context"
	"errors"
	"fmt"
	"testing"

	"cloud.google.com/go/kms/apiv1/kmspb"
	"google.golang.org/grpc"
)

// pagingKMS is a KMS client holding exactly keyPageSize (100) versions of one key. It honours the
// List API contract: a full last page is returned with an EMPTY next_page_token ("no more results").
type pagingKMS struct {
	kmspb.KeyManagementServiceClient // unimplemented methods panic if reached
	state                            kmspb.CryptoKeyVersion_CryptoKeyVersionState
	listCalls, destroyCalls          int
}

var errLoop = errors.New("demo guard: client re-requested the first page again and again")

func (k *pagingKMS) ListCryptoKeyVersions(_ context.Context, req *kmspb.ListCryptoKeyVersionsRequest, _ ...grpc.CallOption) (*kmspb.ListCryptoKeyVersionsResponse, error) {
	k.listCalls++
	if k.listCalls > 5 {
		return nil, errLoop // stand-in for "hangs forever"
	}
	if req.GetPageToken() != "" {
		return nil, fmt.Errorf("unexpected page token %q", req.GetPageToken())
	}
	resp := &kmspb.ListCryptoKeyVersionsResponse{TotalSize: keyPageSize, NextPageToken: ""}
	for i := 1; i <= keyPageSize; i++ {
		resp.CryptoKeyVersions = append(resp.CryptoKeyVersions, &kmspb.CryptoKeyVersion{
			Name: fmt.Sprintf("%s/cryptoKeyVersions/%d", req.GetParent(), i), State: k.state})
	}
	return resp, nil
}

func (k *pagingKMS) DestroyCryptoKeyVersion(_ context.Context, req *kmspb.DestroyCryptoKeyVersionRequest, _ ...grpc.CallOption) (*kmspb.CryptoKeyVersion, error) {
	k.destroyCalls++
	return &kmspb.CryptoKeyVersion{Name: req.GetName()}, nil
}

func TestDemoF17WipeoutKeyExactlyFullLastPage(t *testing.T) {
	k := &pagingKMS{state: kmspb.CryptoKeyVersion_ENABLED}
	m := &Manager{Project: "p", Location: "l", KeyRingID: "r", KeyClient: k}
	err := m.wipeoutKey(context.Background(), m.FullKeyName("signing"))
	t.Logf("list calls=%d destroy calls=%d err=%v", k.listCalls, k.destroyCalls, err)
	if err != nil || k.listCalls != 1 || k.destroyCalls != keyPageSize {
		t.Errorf("wipeoutKey over exactly %d versions: %d list calls, %d destroy calls, err=%v; "+
			"want 1 list call, %d destroys, nil", keyPageSize, k.listCalls, k.destroyCalls, err, keyPageSize)
	}
}

func TestDemoF17GetEnabledOrPendingExactlyFullLastPage(t *testing.T) {
	// 100 historical versions, all destroyed by earlier rotations: want ErrNoKeyVersions after 1 page.
	k := &pagingKMS{state: kmspb.CryptoKeyVersion_DESTROYED}
	m := &Manager{Project: "p", Location: "l", KeyRingID: "r", KeyClient: k}
	_, err := m.getEnabledOrPendingKeyVersion(context.Background(), m.FullKeyName("signing"))
	if !errors.Is(err, ErrNoKeyVersions) || k.listCalls != 1 {
		t.Errorf("getEnabledOrPendingKeyVersion: %d list calls, err=%v; want 1 call and ErrNoKeyVersions",
			k.listCalls, err)
	}
}
