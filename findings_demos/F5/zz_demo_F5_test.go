package tdx

import (
	"bytes"
	"testing"

	"github.com/google/gce-tcb-verifier/testing/fakeovmf"
)

// An unknown machine shape has no defined RAM topology, so no MRTD can be computed for it and the
// endorsement request must be rejected (machineTypeToRAMBanks does return an error for it).
func TestDemoF5UnknownMachineShapeIsMeasuredWithNoRAMBanks(t *testing.T) {
	fw := fakeovmf.CleanExample(t, 2*1024*1024)
	if _, err := machineTypeToRAMBanks("c3-standard-typo"); err == nil {
		t.Fatal("machineTypeToRAMBanks accepted an unknown shape")
	}
	got, err := UnsignedTDX(fw, &EndorsementRequest{MachineShapes: []string{"c3-standard-typo"}})
	if err != nil {
		t.Logf("rejected (good): %v", err)
		return
	}
	t.Errorf("UnsignedTDX endorsed unknown machine shape %q: %d measurements", "c3-standard-typo", len(got.Measurements))
	for _, m := range got.Measurements {
		t.Logf("  ram_gib=%d early_accept=%v mrtd=%x…", m.RamGib, m.EarlyAccept, m.Mrtd[:8])
	}
	// The bogus row is indistinguishable from the shape-independent default row: ram_gib=0.
	known, _ := UnsignedTDX(fw, &EndorsementRequest{MachineShapes: []string{"c3-standard-4"}})
	if bytes.Equal(got.Measurements[0].Mrtd, known.Measurements[0].Mrtd) {
		t.Logf("note: bogus shape MRTD equals c3-standard-4 MRTD")
	} else {
		t.Logf("note: bogus-shape MRTD (TD HOB with zero RAM banks) differs from every real shape, e.g. c3-standard-4 = %x…",
			known.Measurements[0].Mrtd[:8])
	}
}
