package eventlog

import (
	"bytes"
	"encoding/binary"
	"testing"
	"testing/iotest"
)

func TestDemoF8ReadSizedArrayIgnoresShortReads(t *testing.T) {
	// Truncated: the prefix announces 100 bytes but only 3 follow.
	trunc := append(binary.LittleEndian.AppendUint32(nil, 100), 'a', 'b', 'c')
	a := &Uint32SizedArray{}
	if err := a.Unmarshal(bytes.NewReader(trunc)); err == nil {
		t.Errorf("truncated Uint32SizedArray (100 announced, 3 present) accepted: len=%d data=%q…",
			len(a.Data), a.Data[:8])
	}
	s := &ByteSizedCStr{}
	if err := s.Unmarshal(bytes.NewReader([]byte{10, 'G', 'o', 'o'})); err == nil {
		t.Errorf("truncated ByteSizedCStr (10 announced, 3 present) accepted: %q", s.Data)
	}
	// io.Reader may legitimately return fewer bytes than asked for (pipes, sockets, bufio, files on
	// some filesystems). A perfectly valid encoding must still round-trip.
	valid := append(binary.LittleEndian.AppendUint32(nil, 5), "hello"...)
	b := &Uint32SizedArray{}
	if err := b.Unmarshal(iotest.OneByteReader(bytes.NewReader(valid))); err != nil || string(b.Data) != "hello" {
		t.Errorf("valid Uint32SizedArray through a short-reading io.Reader = %q, %v; want \"hello\", nil", b.Data, err)
	}
}
