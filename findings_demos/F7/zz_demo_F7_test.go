package eventlog

import (
	"bytes"
	"encoding/binary"
	"runtime"
	"testing"
)

func allocatedBy(f func()) uint64 {
	var a, b runtime.MemStats
	runtime.GC()
	runtime.ReadMemStats(&a)
	f()
	runtime.ReadMemStats(&b)
	return b.TotalAlloc - a.TotalAlloc
}

// Parsing a few dozen bytes of untrusted event log must not allocate hundreds of MiB just because a
// length prefix says so. (Prefixes are capped at 256 MiB here to keep the demo harmless; the format
// allows 4 GiB-1 for bytes, and 4G elements * 8 bytes = 32 GiB for the digest array.)
func TestDemoF7HugeSizePrefixAllocatesUpFront(t *testing.T) {
	const limit = 1 << 20
	// 32-byte log: header TCG_PCClientPCREvent {pcr, type, sha1[20], eventSize=256MiB}, no data.
	hdr := make([]byte, 32)
	binary.LittleEndian.PutUint32(hdr[28:32], 256<<20)
	var err error
	got := allocatedBy(func() { err = (&CryptoAgileLog{}).Unmarshal(bytes.NewReader(hdr)) })
	t.Logf("32-byte log, TCGEventData size prefix 256MiB: allocated %d MiB, err=%v", got>>20, err)
	if got > limit {
		t.Errorf("TCGEventData.Unmarshal allocated %d bytes for a %d-byte input (limit %d)", got, len(hdr), limit)
	}
	// 44-byte log: valid empty header + TCG_PCR_EVENT2 {pcr, type, digestCount=32M}: make([]*TaggedDigest, 32M).
	log := make([]byte, 44)
	binary.LittleEndian.PutUint32(log[40:44], 32<<20)
	got = allocatedBy(func() { err = (&CryptoAgileLog{}).Unmarshal(bytes.NewReader(log)) })
	t.Logf("44-byte log, digest count prefix 32M: allocated %d MiB, err=%v", got>>20, err)
	if got > limit {
		t.Errorf("Uint32SizedArrayT.Unmarshal allocated %d bytes for a %d-byte input (limit %d)", got, len(log), limit)
	}
	// Uint32SizedArray (readSizedArray/makeSized), used by SP800-155 event fields.
	arr := make([]byte, 4)
	binary.LittleEndian.PutUint32(arr, 256<<20)
	got = allocatedBy(func() { err = (&Uint32SizedArray{}).Unmarshal(bytes.NewReader(arr)) })
	t.Logf("4-byte Uint32SizedArray, size prefix 256MiB: allocated %d MiB, err=%v", got>>20, err)
	if got > limit {
		t.Errorf("readSizedArray allocated %d bytes for a %d-byte input (limit %d)", got, len(arr), limit)
	}
}
