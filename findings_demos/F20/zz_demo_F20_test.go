package parsepath

import (
	"testing"

	tpb "github.com/google/gce-tcb-verifier/gcetcbendorsement/parsepath/testmessage"
)

// TestDemoF20: a field access straight through an un-indexed repeated message field parses, and its evaluation
// panics inside protoreflect ("type mismatch: cannot convert list to message"). C19 demands an error, not a panic.
func TestDemoF20(t *testing.T) {
	m := &tpb.Test{Repeats: []*tpb.Test{{}}}
	for _, path := range []string{"repeats.nested", "repeats.repeats", "nested.nested.nested", "repeats[0].repeats.strkeymap"} {
		func() {
			defer func() {
				if r := recover(); r != nil {
					t.Errorf("path %q: panic: %v", path, r)
				}
			}()
			p, err := ParsePath(m.ProtoReflect().Descriptor(), path)
			if err != nil {
				return // refused at parse time: fine
			}
			if _, err := PathValues(p, m); err == nil && path != "nested.nested.nested" {
				t.Errorf("path %q: evaluated without error although it walks through an un-indexed list", path)
			}
		}()
	}
}
