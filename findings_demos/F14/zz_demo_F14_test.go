package extract

import (
	"strings"
	"testing"

	spb "github.com/google/go-sev-guest/proto/sevsnp"
	tpmpb "github.com/google/go-tpm-tools/proto/attest"
	"google.golang.org/protobuf/proto"
)

type recordingGetter struct{ urls []string }

func (g *recordingGetter) Get(url string) ([]byte, error) {
	g.urls = append(g.urls, url)
	return []byte("<ListBucketResult>…whatever the server returns…</ListBucketResult>"), nil
}

// No quote, no provider, no event log: there is no measurement, hence no object to fetch.
func TestDemoF14ForceFetchWithoutQuoteRequestsBucketRoot(t *testing.T) {
	g := &recordingGetter{}
	out, err := Endorsement(&Options{Getter: g, ForceFetch: true, Quote: nil})
	t.Logf("requested URLs: %q", g.urls)
	if err == nil {
		t.Errorf("Endorsement() = %q, nil; want an error (no quote => no object name)", out)
	}
	for _, u := range g.urls {
		if strings.HasSuffix(u, "/gce_tcb_integrity/") {
			t.Errorf("fetched the bucket root with an empty object name: %s", u)
		}
	}
}

// A report with a truncated (3-byte) measurement must not be turned into an object name.
func TestDemoF14ObjectNameFromMeasurementOfUncheckedLength(t *testing.T) {
	quote, _ := proto.Marshal(&tpmpb.Attestation{TeeAttestation: &tpmpb.Attestation_SevSnpAttestation{
		SevSnpAttestation: &spb.Attestation{Report: &spb.Report{Measurement: []byte{0xAB, 0xCD, 0xEF}}}}})
	g := &recordingGetter{}
	out, err := Endorsement(&Options{Getter: g, Quote: quote})
	t.Logf("requested URLs: %q", g.urls)
	if err == nil || len(g.urls) != 0 {
		t.Errorf("Endorsement() = %q, %v after fetching %q; want an error for a 3-byte measurement "+
			"(SEV-SNP measurements are 48 bytes)", out, err, g.urls)
	}
}
