package abi

import (
	"encoding/binary"
	"fmt"
	"runtime"
	"testing"
	"time"
)

func noPanic(t *testing.T, name string, f func()) {
	t.Helper()
	defer func() {
		if r := recover(); r != nil {
			t.Errorf("%s panicked on short input: %v", name, r)
		}
	}()
	f()
}

// Exported readers that take attacker-controlled firmware bytes must return errors (or at least not
// crash) on short input, as their siblings (TDXMetadataSectionFromBytes, SevEsResetBlockFromBytes) do.
func TestDemoF9UnguardedReadersPanicOnShortInput(t *testing.T) {
	short := make([]byte, 3)
	noPanic(t, "SevMetadataFromBytes", func() { SevMetadataFromBytes(short) })
	noPanic(t, "SevMetadataSectionFromBytes", func() { SevMetadataSectionFromBytes(short) })
	noPanic(t, "MetadataOffsetFromBytes", func() { MetadataOffsetFromBytes(short) })
	noPanic(t, "FwGUIDEntry.PopulateFromBytes", func() { new(FwGUIDEntry).PopulateFromBytes(short[:1]) })
}

// SectionCount*32 wraps in uint32: 0x08000000*32 == 0, so the "data too small" check passes for a
// 16-byte input; the loop then fabricates 134,217,728 zero sections (buf.Read errors are ignored).
func TestDemoF9TDXMetadataSectionCountWrap(t *testing.T) {
	data := make([]byte, SizeofTDXMetadataDescriptor)
	binary.LittleEndian.PutUint32(data[12:16], 0x08000000)
	var before runtime.MemStats
	runtime.ReadMemStats(&before)
	done := make(chan error, 1)
	go func() { _, err := TDXMetadataFromBytes(data); done <- err }()
	for {
		select {
		case err := <-done:
			if err == nil {
				t.Errorf("TDXMetadataFromBytes accepted SectionCount=0x08000000 with 0 bytes of sections")
			}
			return
		case <-time.After(10 * time.Millisecond):
			var now runtime.MemStats
			runtime.ReadMemStats(&now)
			if grown := now.TotalAlloc - before.TotalAlloc; grown > 256<<20 {
				// The parser cannot be cancelled; abort the whole test binary before it eats ~10 GiB.
				panic(fmt.Sprintf("TDXMetadataFromBytes allocated %d MiB (and counting) for a 16-byte input: "+
					"SectionCount*32 wrapped to 0 and bypassed the size check", grown>>20))
			}
		}
	}
}
