package ovmf

import (
	"encoding/binary"
	"testing"

	"github.com/google/gce-tcb-verifier/ovmf/abi"
)

// sevOffsetBlock builds the "SEV metadata offset" GUID block: u32 offset + FwGUIDEntry{size,guid}.
func sevOffsetBlock(offset uint32) map[string][]byte {
	b := make([]byte, abi.SizeofMetadataOffset)
	binary.LittleEndian.PutUint32(b[0:4], offset)
	binary.LittleEndian.PutUint16(b[4:6], abi.SizeofMetadataOffset)
	return map[string][]byte{abi.SevMetadataOffsetGUID: b}
}

func mustNotPanic(t *testing.T, name string, f func() error) {
	t.Helper()
	defer func() {
		if r := recover(); r != nil {
			t.Errorf("%s: panicked on malformed firmware: %v", name, r)
		}
	}()
	if err := f(); err == nil {
		t.Errorf("%s: malformed firmware accepted", name)
	} else {
		t.Logf("%s: rejected with error (good): %v", name, err)
	}
}

func TestDemoF9ExtractSevOvmfMetadataMalformedFirmware(t *testing.T) {
	// (a) metadata offset 4 points at the last 4 bytes of the image: smaller than the 16-byte header.
	mustNotPanic(t, "offset smaller than header", func() error {
		_, err := extractSevOvmfMetadata(sevOffsetBlock(4), make([]byte, 4096))
		return err
	})
	// (b) Sections*12 overflows uint32: 0x15555556*12 = 0x1_0000_0008 -> 8, so Length == 8+16 == 24
	// passes the consistency check, and the loop then walks 357 million "sections" off the image.
	fw := make([]byte, 4096)
	hdr := fw[len(fw)-64:]
	binary.LittleEndian.PutUint32(hdr[0:4], abi.SevSnpMetadataSignature)
	binary.LittleEndian.PutUint32(hdr[4:8], 24)          // Length
	binary.LittleEndian.PutUint32(hdr[8:12], 1)          // Version
	binary.LittleEndian.PutUint32(hdr[12:16], 0x15555556) // Sections
	mustNotPanic(t, "section count overflow", func() error {
		_, err := extractSevOvmfMetadata(sevOffsetBlock(64), fw)
		return err
	})
}
