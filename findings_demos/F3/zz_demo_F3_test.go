package cmd

import (
	"context"
	"testing"

	"github.com/google/gce-tcb-verifier/extract"
	"github.com/google/gce-tcb-verifier/gcetcbendorsement"
	epb "github.com/google/gce-tcb-verifier/proto/endorsement"
	"github.com/google/gce-tcb-verifier/testing/devkeys"
	tpmpb "github.com/google/go-tpm-tools/proto/attest"
	"google.golang.org/protobuf/proto"
)

// goodSnpQuote carries the measurement of the CleanExample firmware launched with 1 VMSA.
// `sev --launch_vmsas=2 validate …` states the VM was launched with 2 VMSAs, so the quote's
// measurement must be compared against the 2-VMSA golden value and be rejected.
func TestDemoF3SevValidateIgnoresLaunchVmsasFlag(t *testing.T) {
	mu.Do(initQuote(t))
	files := map[string]*ioResult{
		"endorsement.binarypb": {readBytes: fakeEndorsement},
		"root.pem":             {readBytes: devkeys.RootCert},
		"attestation.bin":      {readBytes: goodSnpQuote},
	}
	// Control: the library function honours the option and rejects the mismatch.
	tpmat, err := extract.Attestation(goodSnpQuote)
	if err != nil {
		t.Fatal(err)
	}
	endorsement := &epb.VMLaunchEndorsement{}
	if err := proto.Unmarshal(fakeEndorsement, endorsement); err != nil {
		t.Fatal(err)
	}
	rot, err := rootOfTrust(context.WithValue(context.Background(), backendKey,
		&Backend{IO: &testIO{files: files}}), "root.pem")
	if err != nil {
		t.Fatal(err)
	}
	libErr := gcetcbendorsement.SevValidate(context.Background(),
		tpmat.TeeAttestation.(*tpmpb.Attestation_SevSnpAttestation).SevSnpAttestation,
		&gcetcbendorsement.SevValidateOptions{Endorsement: endorsement, RootsOfTrust: rot, Now: now,
			Getter: getter, ExpectedLaunchVmsas: 2})
	if libErr == nil {
		t.Fatal("control failed: SevValidate(ExpectedLaunchVmsas=2) accepted the 1-VMSA quote")
	}
	t.Logf("control: SevValidate with ExpectedLaunchVmsas=2 rejects the quote: %.160s…", libErr.Error())

	c := MakeRoot(context.WithValue(context.Background(), backendKey, &Backend{
		Provider: qp, Getter: getter, Now: now, IO: &testIO{files: files}}))
	c.SetArgs([]string{"sev", "--launch_vmsas=2", "validate", "attestation.bin",
		"--endorsement", "endorsement.binarypb", "--root_cert", "root.pem"})
	if err := c.Execute(); err == nil {
		t.Errorf("`sev --launch_vmsas=2 validate` succeeded on a 1-VMSA quote: the flag is ignored")
	}
}
