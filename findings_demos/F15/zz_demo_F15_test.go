package sev

import (
	"encoding/binary"
	"testing"

	spb "github.com/google/gce-tcb-verifier/proto/sev"
)

// AMD APM vol.2 table B-4: XCR0 lives at VMSA offset 0x3E8, so the reserved block that follows
// sev_features is [0x3B8, 0x3E8) = 48 bytes, exactly as proto/sev.proto documents
// ("bytes reserved_11 = 69; // 48 bytes").
func TestDemoF15Reserved11OverlapsXcr0(t *testing.T) {
	data := make([]byte, SizeofVmsa)
	// A VMSA message with a correctly-sized, all-zero reserved_11 must serialize.
	ok := &spb.VmcbSaveArea{Xcr0: 1, Reserved_11: make([]byte, 0x3E8-0x3B8)}
	if err := PutVmsa(ok, data); err != nil {
		t.Errorf("PutVmsa with a well-formed 48-byte reserved_11 failed: %v", err)
	} else if got := binary.LittleEndian.Uint64(data[0x3E8:0x3F0]); got != 1 {
		t.Errorf("xcr0 at 0x3E8 = %d, want 1", got)
	}
	// A 56-byte reserved_11 claims the XCR0 slot as "reserved" and must be refused.
	bad := &spb.VmcbSaveArea{Xcr0: 1, Reserved_11: make([]byte, 0x3F0-0x3B8)}
	if err := PutVmsa(bad, data); err == nil {
		t.Errorf("PutVmsa accepted a 56-byte reserved_11 that overlaps the xcr0 field [0x3E8,0x3F0)")
	}
}
