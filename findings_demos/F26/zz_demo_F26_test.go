package extract

import (
	"os"
	"path"
	"testing"

	"github.com/google/gce-tcb-verifier/eventlog"
)

// F26: an Options value without a UEFIVariableReader is the "UEFI-variable source absent" point of the
// configuration space. When the event log's matching SP800-155 event is a UEFI-variable locator, extraction
// must report that the source is absent (and go on to the next source, as it does for an absent Getter);
// it must not call through the nil interface.
func TestDemoF26AbsentVariableReaderIsAnErrorNotAPanic(t *testing.T) {
	dir := t.TempDir()
	evlog := path.Join(dir, "event_log")
	f, err := os.Create(evlog)
	if err != nil {
		t.Fatal(err)
	}
	// locator = EFI GUID (16 bytes) followed by a 00-terminated UCS-2 name
	loc := append([]byte{}, make([]byte, 16)...)
	for _, r := range "FirmwareRIM" {
		loc = append(loc, byte(r), 0)
	}
	loc = append(loc, 0, 0)
	el := &eventlog.CryptoAgileLog{
		Header: eventlog.TCGPCClientPCREvent{},
		Events: []*eventlog.TCGPCREvent2{
			{EventType: eventlog.EvNoAction,
				EventData: eventlog.TCGEventData{Event: &eventlog.SP800155Event3{
					FirmwareManufacturerStr: eventlog.ByteSizedCStr{Data: GCEFirmwareManufacturer},
					RIMLocatorType:          eventlog.RIMLocationVariable,
					RIMLocator:              eventlog.Uint32SizedArray{Data: loc},
				}}},
		},
	}
	if err := el.Marshal(f); err != nil {
		t.Fatal(err)
	}
	f.Close()

	var out []byte
	var gotErr error
	func() {
		defer func() {
			if r := recover(); r != nil {
				t.Fatalf("extract.Endorsement panicked with an absent UEFIVariableReader: %v", r)
			}
		}()
		out, gotErr = Endorsement(&Options{
			EventLogLocation:     evlog,
			FirmwareManufacturer: GCEFirmwareManufacturer,
			// no UEFIVariableReader, no Getter, no quote: nothing can be found
		})
	}()
	if gotErr == nil {
		t.Errorf("Endorsement() = %q, nil, want an error: no source is configured", out)
	}
}
