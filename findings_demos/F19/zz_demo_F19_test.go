package abi

import (
	"testing"

	opb "github.com/google/gce-tcb-verifier/proto/ovmf"
)

// SevEsResetBlock.size is a uint32 in the proto but a uint16 in the ABI ("uint16_t
// [(nanopb).int_size = IS_16]"). An out-of-range value must be refused, not silently truncated.
func TestDemoF19PutSevEsResetBlockTruncatesSize(t *testing.T) {
	in := &opb.SevEsResetBlock{Addr: 0x80b004, Size: 0x10016, Guid: make([]byte, 16)}
	data := make([]byte, SizeofSevEsResetBlock)
	err := PutSevEsResetBlock(data, in)
	if err != nil {
		t.Logf("rejected (good): %v", err)
		return
	}
	out, err := SevEsResetBlockFromBytes(data)
	if err != nil {
		t.Fatal(err)
	}
	t.Errorf("PutSevEsResetBlock accepted Size=%#x; serialized block reads back Size=%#x "+
		"(silent truncation, now looks like a valid %d-byte reset block)", in.Size, out.Size, SizeofSevEsResetBlock)
}
