package rotate_test

import (
	"context"
	"crypto"
	"errors"
	"math/big"
	"testing"
	"time"

	"github.com/google/gce-tcb-verifier/keys"
	"github.com/google/gce-tcb-verifier/rotate"
	"github.com/google/gce-tcb-verifier/sign/memca"
	"github.com/google/gce-tcb-verifier/sign/nonprod"
	styp "github.com/google/gce-tcb-verifier/sign/types"
	"github.com/google/gce-tcb-verifier/testing/nonprod/memkm"
	"github.com/google/gce-tcb-verifier/testing/testsign"
)

// failSigner delegates to the real in-memory signer but can be told to fail Sign.
type failSigner struct {
	*nonprod.Signer
	fail bool
}

func (f *failSigner) Sign(ctx context.Context, k string, d styp.Digest, o crypto.SignerOpts) ([]byte, error) {
	if f.fail {
		return nil, errors.New("injected signing failure")
	}
	return f.Signer.Sign(ctx, k, d, o)
}

// recCA / recKM record the order of the externally visible rotation side effects.
type recCA struct {
	*memca.CertificateAuthority
	events *[]string
}

func (c recCA) Finalize(ctx context.Context, m styp.CertificateAuthorityMutation) error {
	*c.events = append(*c.events, "finalize")
	return c.CertificateAuthority.Finalize(ctx, m)
}

type recKM struct {
	*memkm.T
	events *[]string
}

func (k recKM) DestroyKeyVersion(ctx context.Context, name string) error {
	*k.events = append(*k.events, "destroy:"+name)
	return k.T.DestroyKeyVersion(ctx, name)
}

func TestDemoF11RotateFailedSigningStillDestroysOldKey(t *testing.T) {
	ctx0 := context.Background()
	ca := memca.Create()
	s, err := testsign.MakeSigner(ctx0, &testsign.Options{
		Now: time.Now(), CA: ca,
		Root:              testsign.KeyInfo{CommonName: "rootCn", KeyVersionName: "root"},
		PrimarySigningKey: testsign.KeyInfo{CommonName: "signerCn", KeyVersionName: "primarySigningKey"},
	})
	if err != nil {
		t.Fatal(err)
	}
	var events []string
	fs := &failSigner{Signer: s, fail: true}
	ctx := keys.NewContext(ctx0, &keys.Context{
		Signer:  fs,
		CA:      recCA{ca, &events},
		Manager: recKM{&memkm.T{Signer: s}, &events},
		Random:  testsign.SignerRand(),
	})
	ctx = rotate.NewSigningKeyContext(ctx, &rotate.SigningKeyContext{
		SigningKeyCommonName: "rotatedCn", SigningKeySerial: big.NewInt(2), Now: time.Now()})

	if _, err := rotate.Key(ctx); err == nil {
		t.Fatal("rotate.Key succeeded despite the injected signing failure")
	} else {
		t.Logf("rotate.Key error (expected): %v", err)
	}
	t.Logf("side effects performed after the failed certificate signature: %v", events)
	// Correct behaviour: a rotation whose certificate could not be signed must be a no-op.
	if _, err := s.PublicKey(ctx0, "primarySigningKey"); err != nil {
		t.Errorf("old primary signing key was destroyed although rotation failed: %v", err)
	}
	if got, _ := ca.PrimarySigningKeyVersion(ctx0); got != "primarySigningKey" {
		t.Errorf("primary signing key pointer moved to %q although rotation failed", got)
	}
	if _, err := ca.Certificate(ctx0, "primarySigningKey_1"); err == nil {
		t.Errorf("unexpected: new key has a certificate")
	}
	for _, e := range events {
		if e == "finalize" {
			t.Errorf("CA.Finalize was called although signing failed; events=%v", events)
		}
	}
}
